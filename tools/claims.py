"""Per-property claims (edited by hand); `tools/mkmanifest.py` turns them into MANIFEST.json."""
NOTE_TB = ("Trusted: Coq 8.16.1 kernel (no native_compute), extraction with ExtrOcamlBasic only, OCaml driver, "
           "Rust harness and generators, python comparison; the hand-written model is not trusted, it is what the correspondence check ties to /repo. ")

CLAIMS = {
 "C12": dict(
  text="Refinement proof in Coq: Model.Store (same tombstoned vectors, index vectors and swap_remove as aa_framework.rs/label.rs) refines the plain set model for every operation and every history; invariant by induction over operations; all observations, id stability/non-reuse and error-leaves-unchanged are theorems (6 theorems, axiom-free). The model is tied to /repo on every run by replaying generated update histories on the real AAFramework and on the extracted model and comparing every observable after every step; an independent python set model is the implementation-level oracle that turns a disagreement into a failing history.",
  note=NOTE_TB + "HashMap modelled as lookup over live slots; labels usize in the harness (theorems generic in the label type).",
  technique="Coq refinement proof (invariant + abstraction function) + differential replay of histories against the extracted model",
  engines=["coq-model", "correspondence"]),
 "C10": dict(
  text="Seven Coq theorems (axiom-free) about Model.Encoders, for every compact framework of any size, every threshold >= 1 and every encoder (aux_var cf/adm/co, exp cf/co, hybrid co, default stable), plain and with range variables: the models of the generated CNF projected on the argument variables are exactly the conflict-free / admissible / complete / stable sets (soundness and completeness), range variables are sound and every intended set has a model whose range variables equal its range, the variable layout is injective and collision-free, assignment_to_extension returns exactly the true argument variables, and the encoders are defined exactly where the code is. Tie on every run: every public encoder and default factory is run on generated compact frameworks (all frameworks with <= 3 arguments, both sides of the hybrid threshold) through a recording SAT solver; clause sets, reserve, arg_to_lit, first_range_var and assignment_to_extension must equal the extracted model's. Independent oracle: all models of the RECORDED Rust CNF are enumerated and their projections compared with brute-force base sets.",
  note=NOTE_TB + "Theorems quantify over the threshold; DEFENDER_SETS_PROD_THRESHOLD is read from the source on every run only to drive the tie.",
  technique="Coq proof of soundness/completeness of each CNF encoder against Dung's definitions + clause-set equality between the Rust encoders and the extracted model + all-models validation of the recorded CNF",
  engines=["coq-model", "correspondence"]),
}

PARTIAL_SOLVERS = (" Proof status: the Coq theorems proved so far for this property cover the per-component queries of the complete and stable solvers for EVERY valid SAT oracle (built on the C10 encoder theorems) and the abort behaviour (C17); the gluing of components, the grounded fix-point and the MaximalExtensionComputer loops (PR, SST, STG, ID) are not yet theorems: for them the claim rests on the exact trace replay against Model.Solvers plus the brute-force oracle on every run (see the header of coq/theories/Properties/%s.v, which lists what is and is not proved).")

def _solver_claim(pid, what, oracle):
    return dict(
      text=("Hand-written Gallina model of the static solvers (Model.Solvers: component split, encoders, MaximalExtensionComputer, all trait entry points) whose every SAT interaction goes through a program monad with the SAT answers as an oracle parameter. " + what +
            " Tie on every run: the real solvers are run with a recording SAT solver injected through the public factory API (every clause, n_vars value, assumption list and CaDiCaL answer recorded), the extracted model is replayed on the same framework with the recorded answers as script, and the two event traces and outcomes must coincide (order-insensitive only inside clauses and between two solves). Independent oracle: " + oracle + (PARTIAL_SOLVERS % pid)),
      note=NOTE_TB + "CaDiCaL's answers are not trusted for the oracle verdict (the brute-force reference from Spec.AF judges the outcome); they are validated per run, never proved. Theorems hold for every valid oracle, i.e. for all models a correct SAT solver may return, not only the ones observed.",
      technique="Coq proof (for every valid SAT oracle) about a Gallina model of the solvers + exact SAT-trace replay of the real solvers against the extracted model + brute-force semantic oracle",
      engines=["coq-model", "correspondence"])

CLAIMS["C01"] = _solver_claim("C01", "Theorem C01_stable_component_partial: the stable solver's component step returns a stable extension and reports none only if none exists.",
   "the returned set is judged by the brute-force definition (extb / all_exts) on all frameworks with <= 3 arguments, generated frameworks (sparse ids, duplicates, several components) and replay-only frameworks up to 300 arguments.")
CLAIMS["C02"] = _solver_claim("C02", "Theorems C02_complete_component_partial / C02_stable_component_partial: the guarded query returns a model iff the argument is credulously accepted (CO; ST) in the component.",
   "statuses judged by credb (brute force) for every argument of every framework with <= 3 arguments and on generated frameworks.")
CLAIMS["C03"] = _solver_claim("C03", "Theorem C03_stable_component_partial: the stable solver's skeptical component step is unsatisfiable iff every stable extension of the component contains the argument.",
   "statuses judged by skepb (brute force) for every argument of every framework with <= 3 arguments and on generated frameworks incl. grounded-insensitive motifs.")
CLAIMS["C04"] = _solver_claim("C04", "Theorems C04_*_witness_component_partial: the model returned by a component query denotes an extension containing (credulous) resp. omitting (skeptical) the argument, and none is returned otherwise.",
   "certificates judged by brute force: presence exactly when promised, extension of the right semantics, contains/omits the argument, members are the caller's (id,label) pairs, no duplicates.")
CLAIMS["C07"] = _solver_claim("C07", "Theorems C07_*_list_*_component_partial: for every argument list (repetitions allowed) the complete solver's query (with and without certificate) and the stable solver's component steps answer the disjunction. The two defects found here (D1, D2) are repaired by fix: commits.",
   "all lists of 1-2 arguments on all frameworks with <= 2 (quick) / 3 (thorough) arguments and lists of 1-3 arguments with forced spreads on generated frameworks, judged by the brute-force disjunction semantics.")
CLAIMS["C17"] = dict(
  text="Coq theorem C17_unknown_aborts (axiom-free) about Model.Solvers.run_query, for every entry point, framework, argument list, encoder, fuel and EVERY oracle (any sequence of answers): a run that ends in Abort has an Unknown answer as its last SAT event and no earlier one; a run that ends in any other way (outcome, panic, out of fuel) consumed no Unknown answer - so an undecided SAT call is never converted into a status, extension or certificate. Tie on every run: each generated query is first run fault-free to count its SAT calls K and then once per call position with the k-th answer replaced by Unknown through a SatSolver wrapper injected by the public factory API; the real outcome must be an abort with that Unknown as last SAT event, and the recorded trace is replayed on the extracted model. Not yet covered by a theorem: the text-level failure kinds (truncated / garbled replies: C16's reply parser theorem) and the CLI exit status.",
  note=NOTE_TB + "Rust's unwinding runs Drop of MaximalExtensionComputer after the panic (one more clause is added): events after the Unknown answer are outside the query and are ignored by the comparison.",
  technique="Coq invariant proof over the SAT-program monad (Abort is absorbing, solve is the only consumer of answers) + fault enumeration at every SAT-call position of the real solvers, replayed on the extracted model",
  engines=["coq-model", "correspondence"])

CLAIMS["C18"] = dict(
  text="Coq theorems (axiom-free, every oracle): the complete solver's component query makes exactly one SAT call and the stable solver's component step at most two (C18_*_calls_partial), whatever the answers; every model function recurses structurally on fuel or on a list, so model runs terminate. The bounds of the MaximalExtensionComputer loops (PR <= |base|+|PR|+1, ID <= 2|base|+|PR|+2, SST/STG <= (n+2)|base|+3) are NOT yet theorems: they are measured on every run - SAT calls per session and in total of the real solvers (recorded through the injected recording SAT solver, and replayed exactly on the extracted model) are compared with the bound computed by brute force per connected component (number of cf / adm / co sets and of preferred extensions from Spec.AF) on all frameworks with <= 2 (quick) / 3 (thorough) arguments and generated ones; a run of the model that exhausts its fuel (2*calls+12) is reported as non-termination.",
  note=NOTE_TB + "The brute-force bound is only computable for small components (<= 8/9 arguments); larger cases are replay-only and counted as skipped in the evidence.",
  technique="Coq proof of the call counts of the loop-free solvers + measured SAT-call counts of the real solvers (exact trace replay) against the brute-force bound per component",
  engines=["coq-model", "correspondence"])

NOT_YET = "check not built yet (work in progress; see DESIGN.md section 13)"
