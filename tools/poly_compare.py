#!/usr/bin/env python3
"""Differential comparison of the python polynomial oracle with its Coq mirror (Proofs/PolyOracleDefs.v).

python side : checks/solvers_common.py poly_judge, checks/dyn_common.py dyn_poly_verdict, run on synthetic cases
              (random frameworks, every semantics, both questions, random lists / returned sets) with the outcome
              YES and with the outcome NO: the rule "decides b" when exactly the other outcome is reported bad.
Coq side    : poly_status / dyn_poly_status / poly_cert_test / prop_ground evaluated by vm_compute on the same inputs.
The script writes coq/scratch/poly_compare.v and compiles it (the .vo files of the development must be built);
it prints the number of compared decisions and fails when one differs.  Nothing here is used by the checks.

usage: tools/poly_compare.py [seed] [frameworks]"""
import os, random, subprocess, sys

ROOT = os.path.dirname(os.path.dirname(os.path.abspath(__file__)))
sys.path.insert(0, os.path.join(ROOT, "checks"))
import lib                      # noqa: E402
import solvers_common as sc     # noqa: E402
import dyn_common as dc         # noqa: E402

SEMS = ["GR", "CO", "PR", "ST", "SST", "STG", "ID"]


def framework(rng):
    n = rng.randint(1, 9)
    style = rng.randrange(4)
    rel = set()
    if style == 0:        # sparse, mostly forward: large grounded extensions
        for a in range(n):
            for b in range(a + 1, n):
                if rng.random() < 0.3:
                    rel.add((a, b))
        for _ in range(rng.randint(0, 2)):
            rel.add((rng.randrange(n), rng.randrange(n)))
    elif style == 1:      # a chain plus a few cycles
        for a in range(n - 1):
            if rng.random() < 0.8:
                rel.add((a, a + 1))
        for _ in range(rng.randint(0, 3)):
            a, b = rng.randrange(n), rng.randrange(n)
            rel.add((a, b))
            if rng.random() < 0.5:
                rel.add((b, a))
    elif style == 2:      # uniform
        p = rng.choice([0.1, 0.2, 0.4])
        for a in range(n):
            for b in range(n):
                if rng.random() < p:
                    rel.add((a, b))
    else:                 # acyclic: the grounded extension is stable
        for a in range(n):
            for b in range(a + 1, n):
                if rng.random() < 0.4:
                    rel.add((a, b))
    return n, sorted(rel)


def grounded(n, rel):
    G, ch = set(), True
    while ch:
        ch = False
        for a in range(n):
            if a not in G and all(any((c, b) in rel for c in G) for (b, x) in rel if x == a):
                G.add(a); ch = True
    return sorted(G)


def greedy(n, rel, start, rng):
    """a maximal conflict-free superset of start (often a stable / preferred extension)"""
    S = set(start)
    for a in rng.sample(range(n), n):
        if a not in S and (a, a) not in rel and not any((a, b) in rel or (b, a) in rel for b in S):
            S.add(a)
    return sorted(S)


def static_case(n, rel, sem, q, out, args=None):
    c = lib.Case("0", "static/%s/%s/x" % (sem, q))
    c.ins.append("iccma %d %s" % (n, " ".join("%d %d" % p for p in rel)))
    if args is not None:
        c.ins.append("args " + " ".join(str(a + 1) for a in args))
    c.outs.append(out)
    return c


def decided(yes, no):
    """verdicts on the outcome YES and on the outcome NO -> 0 undecided, 1 decided NO, 2 decided YES"""
    by, bn = yes is not None, no is not None
    if by and bn:
        raise RuntimeError("both outcomes rejected: %s / %s" % (yes, no))
    return 1 if by else (2 if bn else 0)


def dyn_case(n, rel, sem, q, lab, status):
    c = lib.Case("0", "dynamic/%s" % sem)
    for i in range(n):
        c.raw.append("IN op +a %d\n" % (i + 1))
    for (a, b) in rel:
        c.raw.append("IN op +t %d %d\n" % (a + 1, b + 1))
    c.raw.append("IN q %s %d\n" % (q, lab + 1))
    c.raw.append("OUT acc %s nocert\n" % status)
    for l in c.raw:
        if l.startswith("IN "):
            c.ins.append(l[3:].rstrip("\n"))
        else:
            c.outs.append(l[4:].rstrip("\n"))
    return c


def coq_list(xs):
    return "[" + "; ".join(str(x) for x in xs) + "]"


def main():
    seed = int(sys.argv[1]) if len(sys.argv) > 1 else 1
    count = int(sys.argv[2]) if len(sys.argv) > 2 else 300
    rng = random.Random(seed)
    st_rows, cert_rows, dyn_rows, fw_rows = [], [], [], []
    fws_py = []
    hist = {0: 0, 1: 0, 2: 0}
    for k in range(count):
        n, rel = framework(rng)
        fw_rows.append("(%d, %s)" % (n, coq_list("(%d, %d)" % p for p in rel)))
        fws_py.append((n, rel))
        for si, sem in enumerate(SEMS):
            for qi, q in enumerate(("DC", "DS")):
                lists = [[rng.randrange(n)] for _ in range(2)]
                lists.append([rng.randrange(n) for _ in range(rng.randint(2, 3))])
                lists.append([])
                for al in lists:
                    d = decided(sc.poly_judge(static_case(n, rel, sem, q, "acc YES nocert", al)),
                                sc.poly_judge(static_case(n, rel, sem, q, "acc NO nocert", al)))
                    hist[d] += 1
                    st_rows.append("(%d, %d, %d, %s, %d)" % (k, si, qi, coq_list(al), d))
            sets = [[a for a in range(n) if rng.random() < 0.4] for _ in range(3)]
            sets.append([])
            sets.append(grounded(n, rel))
            sets.append(greedy(n, rel, grounded(n, rel), rng))
            for S in sets:
                v = sc.poly_judge(static_case(n, rel, sem, "SE", "ext " + " ".join("%d:%d" % (a, a + 1) for a in S)))
                cert_rows.append("(%d, %d, %s, %s)" % (k, si, coq_list(S), "true" if v is None else "false"))
        for si, sem in ((1, "co"), (3, "st"), (2, "pr")):
            for qi, q in enumerate(("DC", "DS")):
                for lab in range(n):
                    d = decided(dc.dyn_poly_verdict(dyn_case(n, rel, sem, q, lab, "YES")),
                                dc.dyn_poly_verdict(dyn_case(n, rel, sem, q, lab, "NO")))
                    dyn_rows.append("(%d, %d, %d, %d, %d)" % (k, si, qi, lab, d))
    # ---- the classes rule of checks/C19.py (grounded_classes_verdict): G and D are whole classes, the other arguments are
    # paired at random; python reports a cut iff some seed of a merged class generates a closure that cuts some class
    import C19 as c19
    cls_rows = []
    rng2 = random.Random(seed + 1)
    for k, (n, rel) in enumerate(fws_py):
        G = set(grounded(n, rel))
        D = {b for (a, b) in rel if a in G}
        rest = [a for a in range(n) if a not in G and a not in D]
        rng2.shuffle(rest)
        classes = [sorted(G)] if G else []
        if D:
            classes.append(sorted(D))
        while rest:
            take = rng2.choice([1, 2, 2, 3])
            classes.append(sorted(rest[:take]))
            rest = rest[take:]
        parsed = {"classes": frozenset(frozenset(c) for c in classes),
                  "i2r": {a: (frozenset(c), min(c) + 1) for c in classes for a in c}}
        v = c19.grounded_classes_verdict(n, rel, parsed)
        if v is not None and "is cut by" not in v:
            raise RuntimeError("unexpected verdict on whole grounded classes: " + v)
        seeds = [s_ for c in classes if len(c) >= 2 and not (set(c) & G) and not (set(c) & D) for s_ in c]
        cls_rows.append("(%d, %s, %s, %s)" % (k, coq_list(seeds), coq_list(coq_list(c) for c in classes), "true" if v is not None else "false"))
    # ---- unit propagation of checks/C10.py (_propagate) against Proofs/PolyCnfDefs.up_run: random small CNFs (many unit
    # and binary clauses, so that propagation chains, conflicts, models and open ends all occur) and partial assignments
    import C10 as c10
    up_rows, up_hist = [], {"conflict": 0, "model": 0, "open": 0}
    rng3 = random.Random(seed + 2)
    for _ in range(count * 6):
        nv = rng3.randint(1, 7)
        cls = []
        for _ in range(rng3.randint(0, 9)):
            k = rng3.choice([1, 2, 2, 2, 3, 3, 4])
            cls.append([rng3.choice([-1, 1]) * rng3.randint(1, nv) for _ in range(k)])
        asg = {v_: rng3.random() < 0.5 for v_ in range(1, nv + 1) if rng3.random() < 0.4}
        r = c10._propagate(cls, asg)
        up_hist[r] += 1
        up_rows.append("(%s, %s, %d)" % (coq_list(coq_list("(%d)%%Z" % l for l in c) for c in cls),
                                          coq_list("(%d, %s)" % (v_, "true" if b else "false") for v_, b in sorted(asg.items())),
                                          {"conflict": 0, "model": 1, "open": 2}[r]))
    v = """From Coq Require Import List Arith Bool ZArith.
From Crusta Require Import Spec.AF Spec.SemFacts Spec.Theory Sat.Cnf Proofs.PolyOracleDefs Proofs.PolyClassesDefs Proofs.PolyCnfDefs.
Import ListNotations.
Definition fws : list (nat * list (nat * nat)) := %s.
Definition fw (k : nat) : af := let p := nth k fws (0, []) in compact (fst p) (snd p).
Definition sem_of (i : nat) : sem := nth i [GR; CO; PR; ST; SST; STG; ID] GR.
Definition q_of (i : nat) : accq := match i with 0 => Cred | _ => Skep end.
Definition code (o : option bool) : nat := match o with None => 0 | Some false => 1 | Some true => 2 end.
Definition st_rows : list (nat * nat * nat * list nat * nat) := %s.
Definition cert_rows : list (nat * nat * list nat * bool) := %s.
Definition dyn_rows : list (nat * nat * nat * nat * nat) := %s.
Definition st_bad := filter (fun r => match r with (k, s, q, al, d) =>
  negb (Nat.eqb (code (poly_status (fw k) (sem_of s) (q_of q) al)) d) end) st_rows.
Definition cert_bad := filter (fun r => match r with (k, s, X, d) =>
  negb (Bool.eqb (poly_cert_test (sem_of s) (fw k) X) d) end) cert_rows.
Definition dyn_bad := filter (fun r => match r with (k, s, q, a, d) =>
  negb (Nat.eqb (code (dyn_poly_status (fw k) (sem_of s) (q_of q) a)) d) end) dyn_rows.
Definition prop_bad := filter (fun k => let F := fw k in let (G, D) := prop_ground F in
  negb (seteqb G (lfp F) && forallb (fun a => Bool.eqb (memb a D) (defeatedb F a)) (args F))) (seq 0 (length fws)).
Definition cls_rows : list (nat * list nat * list (list nat) * bool) := %s.
Definition cls_bad := filter (fun r => match r with (k, seeds, cls, d) =>
  negb (Bool.eqb (existsb (fun s => existsb (fun C => cut_by_closure (fw k) (lfp (fw k)) s C) cls) seeds) d) end) cls_rows.
Definition up_rows : list (list (list Z) * list (nat * bool) * nat) := %s.
Definition up_code (r : up_result) : nat := match r with UpConflict => 0 | UpModel => 1 | UpOpen => 2 end.
Definition up_bad := filter (fun r => match r with (cls, a, d) => negb (Nat.eqb (up_code (up_run cls a)) d) end) up_rows.
Eval vm_compute in (st_bad, cert_bad, dyn_bad, prop_bad, cls_bad, up_bad).
""" % (coq_list(fw_rows), coq_list(st_rows), coq_list(cert_rows), coq_list(dyn_rows), coq_list(cls_rows), coq_list(up_rows))
    d = os.path.join(ROOT, "coq", "scratch")
    os.makedirs(d, exist_ok=True)
    open(os.path.join(d, "poly_compare.v"), "w").write(v)
    p = subprocess.run("timeout 1200 coqc -Q theories Crusta scratch/poly_compare.v", shell=True, cwd=os.path.join(ROOT, "coq"),
                       stdout=subprocess.PIPE, stderr=subprocess.STDOUT, universal_newlines=True)
    out = " ".join(p.stdout.split())
    ok = p.returncode == 0 and "= ([], [], [], [], [], [])" in out
    print("cert rows accepted by python: %d" % sum(1 for r in cert_rows if r.endswith("true)")))
    print("frameworks %d, status decisions %d (undecided %d, NO %d, YES %d), returned sets %d, dynamic decisions %d: %s (class partitions %d, cut %d; propagations %d: conflict %d, model %d, open %d)"
          % (count, len(st_rows), hist[0], hist[1], hist[2], len(cert_rows), len(dyn_rows), "all equal" if ok else "DIFFERENCE",
             len(cls_rows), sum(1 for r in cls_rows if r.endswith("true)")), len(up_rows), up_hist["conflict"], up_hist["model"], up_hist["open"]))
    if not ok:
        print(p.stdout[-3000:])
        sys.exit(1)


if __name__ == "__main__":
    main()
