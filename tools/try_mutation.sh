#!/bin/sh
# usage: tools/try_mutation.sh <patch.diff> <prop> [<prop>...]   (applies the patch to /repo, runs the quick checks, reverts)
P="$1"; shift
cd /repo && git apply "$P" || { echo "patch does not apply"; exit 2; }
cd /verif
for p in "$@"; do
  echo "== $p"; ( timeout 900 ./bin/check $p --tier quick 2>&1 | grep -E "VIOLATION|KNOWN|ok:|FAILED" | head -6 )
done
cd /repo && git checkout -- . && git status --short | head -3
