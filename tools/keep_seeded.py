#!/usr/bin/env python3
"""tools/keep_seeded.py <dir under /tmp/mut, e.g. C08a> <name> <caught_by comma list> <notes>  : copies a confirmed seeded change from /tmp/mut/<dir> to seeded/<name>/ (property id = first three characters of <dir>)"""
import json, os, shutil, sys, glob
d, name, caught, notes = sys.argv[1], sys.argv[2], sys.argv[3], sys.argv[4]
pid = d[:3]
src = "/tmp/mut/%s" % d
dst = os.path.join(os.path.dirname(os.path.dirname(os.path.abspath(__file__))), "seeded", name)
os.makedirs(dst, exist_ok=True)
shutil.copy(os.path.join(src, "patch.diff"), dst)
for t in glob.glob(os.path.join(src, "tests", "seeded_*.rs")):
    shutil.copy(t, dst)
meta = json.load(open(os.path.join(src, "meta.json")))
meta["breaks_property"] = pid
meta["confirmed_by_me"] = {
    "how": "in the scratch worktree: `cargo test --workspace --no-fail-fast --offline` with the change applied (every pre-existing target passes, only the demonstration fails), demonstration re-run with the change (fails) and with src/ reverted (passes)",
    "log": open(os.path.join(src, "confirm.txt")).read().splitlines(),
}
meta["checks_run_against_it"] = {"caught_by": [c for c in caught.split(",") if c], "how": "git -C /repo apply patch.diff; ./bin/check <id> --tier quick; git -C /repo checkout -- .", "notes": notes}
json.dump(meta, open(os.path.join(dst, "meta.json"), "w"), indent=1)
print("kept", dst)
