#!/usr/bin/env python3
"""Writes MANIFEST.json from tools/claims.py."""
import json, os, sys
root = os.path.dirname(os.path.dirname(os.path.abspath(__file__)))
sys.path.insert(0, os.path.join(root, "tools"))
from claims import CLAIMS, NOT_YET
try:
    from claims import NOT_APPLICABLE
except ImportError:
    NOT_APPLICABLE = {}
try:
    from claims import SOURCE_COMMITS
except ImportError:
    SOURCE_COMMITS = []
ids = [json.loads(l)["id"] for l in open(os.path.join(root, "properties.jsonl"))]
claimed = [i for i in ids if i in CLAIMS]
m = {
 "version": 1,
 "setup_cmd": "./bin/setup",
 "hooks": {
  "guard": "crustabri_verif",
  "enable": "RUSTFLAGS=\"--cfg crustabri_verif\" (set by bin/setup and checks/lib.py when building harness/ against /repo). Two add-only source hooks, both re-exports of crate-private items under #[cfg(crustabri_verif)]: utils::verif_hooks::{ConnectedComponentsComputer, ConnectedComponentsIterator} (label-route tie of C04) and sat::verif_hooks::{BufferedSatSolver, DimacsInstanceRead} (in-process tie of C15/C16); everything else is observed through the public API",
  "baseline_off_cmd": "cd /repo && cargo test --workspace --no-fail-fast --offline",
  "source_commits": SOURCE_COMMITS,
  "add_only": True,
 },
 "engines": [
  {"name": "coq-model", "path": "coq/", "serves_properties": claimed,
   "kind_free_text": "Coq 8.16.1 development: Spec (Dung semantics), Sat (CNF, SAT-program monad), Model (hand-written Gallina model of the Rust code), Proofs, Properties (statements only, Print Assumptions)"},
  {"name": "correspondence", "path": "harness/ driver/ checks/", "serves_properties": claimed,
   "kind_free_text": "Rust harness drives the real code (recording SAT solver injected through the public factory API), OCaml driver runs the extracted model on the same inputs with the recorded SAT answers, python compares and runs model-independent oracles that search for failing inputs"},
 ],
 "checks": [],
 "notes": "See DESIGN.md. Genuine defects found are repaired by `fix:` commits in /repo and listed in known_findings.json (status fixed).",
 "not_applicable": [],
}
for i in ids:
    if i in CLAIMS:
        c = CLAIMS[i]
        m["checks"].append({
         "property_id": i,
         "quick_cmd": "./bin/check %s --tier quick" % i,
         "thorough_cmd": "./bin/check %s --tier thorough" % i,
         "evidence_file": "evidence/%s.json" % i,
         "replay_cmd_template": "./bin/check %s --replay {path}" % i,
         "engine": "coq-model",
         "level_claimed": {"category": c.get("category", "proof"), "text": c["text"], "design_ref": "DESIGN.md section 8 (%s)" % i},
         "level_note": c["note"],
         "technique": c["technique"],
        })
    else:
        m["not_applicable"].append({"property_id": i, "reason": NOT_APPLICABLE.get(i, NOT_YET)})
json.dump(m, open(os.path.join(root, "MANIFEST.json"), "w"), indent=1)
print("claimed:", claimed)
