#!/bin/sh
# usage: tools/confirm_seeded.sh <name>      (scratch worktree /tmp/mut/<name> left by a sub-agent with the change applied)
# Confirms independently: (1) patch.diff == the change in src/, nothing else under src/ or the old tests touched;
# (2) whole existing suite green with the change (demonstration excluded); (3) demonstration fails with the change;
# (4) demonstration passes on the original sources. Writes /tmp/mut/<name>/confirm.txt; exit 0 iff all four hold.
N="$1"; D=/tmp/mut/$N; cd "$D" || exit 2
export CARGO_NET_OFFLINE=true
OUT=$D/confirm.txt; : > $OUT
DEMO=$(ls tests/seeded_*.rs 2>/dev/null | head -1); DN=$(basename "$DEMO" .rs)
[ -n "$DEMO" ] || { echo "no demonstration" | tee -a $OUT; exit 1; }
# (1) the worktree is reset to the original sources and the agent's patch.diff is applied (never `git stash`:
#     the stash is shared by all worktrees of a repository and concurrent agents can pop each other's entries)
git checkout -q -- src || exit 2
git apply patch.diff || { echo "patch.diff does not apply to the original sources" | tee -a $OUT; exit 1; }
OTHER=$(git status --short | grep -v '^??' | grep -v ' src/' | head -5)
[ -z "$OTHER" ] || { echo "tracked files outside src/ modified: $OTHER" | tee -a $OUT; exit 1; }
echo "changed lines: $(grep -c '^[+-][^+-]' patch.diff)" >> $OUT
# (2) existing suite with the change, demonstration moved away
mkdir -p /tmp/mut/$N.hold; mv tests/seeded_*.rs /tmp/mut/$N.hold/
echo "== with the change applied: existing suite (demonstration excluded)" >> $OUT
timeout 3000 cargo test --workspace --no-fail-fast --offline > $D/suite.log 2>&1; RC2=$?
grep -E "^test result|Running|error: test failed|FAILED|failed" $D/suite.log | grep -v "^test .* ok$" | head -40 >> $OUT
echo "suite rc=$RC2" >> $OUT
mv /tmp/mut/$N.hold/* tests/; rmdir /tmp/mut/$N.hold
# (3) demonstration with the change
echo "== demonstration with the change" >> $OUT
timeout 1500 cargo test --offline --test $DN > $D/demo_with.log 2>&1; RC3=$?
grep -E "^test |^test result" $D/demo_with.log | head -20 >> $OUT; echo "demo-with rc=$RC3" >> $OUT
# (4) demonstration on the original sources
git checkout -q -- src
echo "== demonstration on the original code" >> $OUT
timeout 1500 cargo test --offline --test $DN > $D/demo_without.log 2>&1; RC4=$?
grep -E "^test |^test result" $D/demo_without.log | head -20 >> $OUT; echo "demo-without rc=$RC4" >> $OUT
git apply patch.diff
if [ $RC2 -eq 0 ] && [ $RC3 -ne 0 ] && [ $RC4 -eq 0 ]; then echo "CONFIRMED $N" | tee -a $OUT; exit 0; else echo "NOT CONFIRMED $N (suite=$RC2 with=$RC3 without=$RC4)" | tee -a $OUT; exit 1; fi
