#!/bin/sh
# merges an agent branch, resolving the expected additive conflicts by taking both sides
cd /verif
git merge "$1" -m "merge $1" >/dev/null 2>&1
for f in $(git diff --name-only --diff-filter=U); do
  case "$f" in
    checks/pins.json|evidence/*) git checkout --ours "$f" 2>/dev/null || git checkout --theirs "$f";;
    *) python3 - "$f" <<'PY'
import re,sys
p=sys.argv[1]
s=open(p).read()
s=re.sub(r"<<<<<<< [^\n]*\n(.*?)=======\n(.*?)>>>>>>> [^\n]*\n", lambda m: m.group(1)+m.group(2), s, flags=re.S)
if p.endswith('_CoqProject'):
    seen=set(); out=[]
    for l in s.split('\n'):
        if l.startswith('theories/') and l in seen: continue
        seen.add(l); out.append(l)
    s='\n'.join(out)
open(p,'w').write(s)
PY
    ;;
  esac
  git add "$f"
done
git status --short | grep -v "^??" | head -30
