//! Modes `satobj`, `dimacs`, `reply`, `pipe` (C15, C16): the SAT solver objects of crustabri driven
//! directly: incremental histories on `CadicalSolver` and on `ExternalSatSolver` pointing at the
//! verified reference solver `driver/vdpll`; capture of the exact bytes the external program
//! receives; stub replies through the real reply parser; solver output volumes around the OS pipe
//! capacity under a wall-clock watchdog.
use crate::common::*;
use crate::gen::*;
use crate::statics;
use crustabri::sat::verif_hooks::{BufferedSatSolver, DimacsInstanceRead};
use crustabri::sat::{CadicalSolver, ExternalSatSolver, Literal, SatSolver, SolvingListener, SolvingResult};
use std::io::Read;
use std::cell::RefCell;
use std::rc::Rc;

pub struct Env {
    pub vdpll: String,
    pub tmp: String,
}

impl Env {
    pub fn from_extra(extra: &[String]) -> Env {
        let mut vdpll = format!("{}/../driver/vdpll", env!("CARGO_MANIFEST_DIR"));
        let mut tmp = format!("{}/vharness-{}", std::env::temp_dir().display(), std::process::id());
        let mut shard = "0_1".to_string();
        let mut i = 0;
        while i < extra.len() {
            match extra[i].as_str() {
                "--vdpll" => { vdpll = extra[i + 1].clone(); i += 2 }
                "--tmp" => { tmp = extra[i + 1].clone(); i += 2 }
                "--shard" => { shard = extra[i + 1].replace('/', "_"); i += 2 }
                _ => i += 1,
            }
        }
        let tmp = format!("{}/s{}", tmp, shard);
        std::fs::create_dir_all(&tmp).unwrap();
        Env { vdpll, tmp }
    }
    fn file(&self, name: &str) -> String {
        format!("{}/{}", self.tmp, name)
    }
}

// ------------------------------------------------------------------------------------ histories

#[derive(Clone, Debug)]
pub enum SOp {
    Add(Vec<isize>),
    Res(usize),
    Solve(Vec<isize>),
    /// `solve()` (no assumptions) rather than `solve_under_assumptions(&[])`
    Solve0,
    NVars,
}

impl SOp {
    pub fn to_line(&self) -> String {
        match self {
            SOp::Add(c) => format!("op add {}", join(c.iter(), " ")),
            SOp::Res(n) => format!("op res {}", n),
            SOp::Solve(a) => format!("op solve {}", join(a.iter(), " ")),
            SOp::Solve0 => "op solve0".to_string(),
            SOp::NVars => "op nv".to_string(),
        }
    }
}

fn rand_lit(rng: &mut Rng, nv: usize) -> isize {
    let v = rng.range(1, nv.max(1)) as isize;
    if rng.chance(1, 2) { v } else { -v }
}

fn rand_clause(rng: &mut Rng, nv: usize) -> Vec<isize> {
    let len = match rng.below(20) { 0 => 0, 1..=4 => 1, 5..=11 => 2, 12..=17 => 3, _ => 4 };
    (0..len).map(|_| rand_lit(rng, nv)).collect()
}

pub const RECIPES: [&str; 9] = [
    "random", "empty", "units", "reserved-unused", "assume-unseen", "alternate", "php", "dup-taut", "random-dense",
];

/// Structured and random incremental histories; `max_solves` bounds the number of solver calls.
pub fn gen_history(rng: &mut Rng, recipe: &str, max_solves: usize) -> Vec<SOp> {
    let mut ops: Vec<SOp> = Vec::new();
    match recipe {
        "empty" => {
            ops.push(SOp::Solve0);
            ops.push(SOp::NVars);
            if rng.chance(1, 2) { ops.push(SOp::Res(rng.range(0, 6))); }
            ops.push(SOp::Solve(vec![]));
            ops.push(SOp::NVars);
            let v = rng.range(1, 9) as isize;
            ops.push(SOp::Solve(vec![if rng.chance(1, 2) { v } else { -v }]));
            ops.push(SOp::NVars);
            ops.push(SOp::Solve0);
        }
        "bulk" => {
            // an instance whose DIMACS text is larger than a pipe buffer / a 64 KiB chunk, trivially satisfiable
            // (every clause contains the literal 1): the bytes the external program receives are compared in full
            let n = rng.range(6300, 6700);      // about 70 KiB of text; the model-side printer is slow on more
            for i in 0..n {
                let x = (i % 40 + 2) as isize;
                let y = ((i * 7) % 41 + 2) as isize;
                ops.push(SOp::Add(vec![1, if i % 2 == 0 { x } else { -x }, if i % 3 == 0 { y } else { -y }]));
            }
            ops.push(SOp::Solve(vec![1]));
            ops.push(SOp::NVars);
        }
        "wide" => {
            // size: three-digit variables, ONE clause of 33-44 literals (its text is longer than 128 bytes), unit
            // clauses that falsify all but its last literal, long assumption lists
            let base = rng.range(100, 115) as isize;      // (the reference DPLL walks over every variable up to the largest)
            let k = rng.range(33, 44) as isize;
            ops.push(SOp::Add((0..=k).map(|i| base + i).collect()));
            for i in 0..k { ops.push(SOp::Add(vec![-(base + i)])); }
            ops.push(SOp::Solve0);                                   // satisfiable: the last literal is forced
            ops.push(SOp::NVars);
            ops.push(SOp::Solve(vec![-(base + k)]));                 // unsatisfiable under this assumption
            let many: Vec<isize> = (0..rng.range(20, 30) as isize).map(|i| -(base + i)).collect();
            ops.push(SOp::Solve(many));                              // a long, consistent assumption list
            ops.push(SOp::Add(vec![base + k + 1, -(base + k)]));
            ops.push(SOp::Solve0);
        }
        "units" => {
            let k = rng.range(1, 7);
            ops.push(SOp::Add(vec![1]));
            for i in 1..k { ops.push(SOp::Add(vec![-(i as isize), i as isize + 1])); }
            ops.push(SOp::Solve0);
            ops.push(SOp::Solve(vec![-(k as isize)]));
            ops.push(SOp::Solve(vec![k as isize]));
            ops.push(SOp::Add(vec![-(k as isize)]));
            ops.push(SOp::Solve0);
            ops.push(SOp::NVars);
        }
        "reserved-unused" => {
            let r = rng.range(4, 14);
            ops.push(SOp::Res(r));
            ops.push(SOp::NVars);
            for _ in 0..rng.range(0, 4) { let mut c = rand_clause(rng, 3); if c.is_empty() { c.push(1) }; ops.push(SOp::Add(c)); }
            ops.push(SOp::Solve0);
            ops.push(SOp::Res(rng.range(0, r)));
            ops.push(SOp::NVars);
            ops.push(SOp::Add(vec![(r + 2) as isize, -1]));
            ops.push(SOp::NVars);
            ops.push(SOp::Solve(vec![-((r + 2) as isize)]));
            ops.push(SOp::Res(r + 5));
            ops.push(SOp::Solve0);
        }
        "assume-unseen" => {
            for _ in 0..rng.range(0, 3) { let mut c = rand_clause(rng, 3); if c.is_empty() { c.push(-2) }; ops.push(SOp::Add(c)); }
            let hi = rng.range(5, 11) as isize;
            ops.push(SOp::NVars);
            ops.push(SOp::Solve(vec![hi]));
            ops.push(SOp::NVars);
            ops.push(SOp::Solve(vec![-(hi + 2), 2]));
            ops.push(SOp::NVars);
            ops.push(SOp::Solve0);
            ops.push(SOp::Solve(vec![hi, -hi]));
        }
        "alternate" => {
            ops.push(SOp::Add(vec![1, 2]));
            ops.push(SOp::Add(vec![-1, -2]));
            ops.push(SOp::Solve(vec![1, 2]));
            ops.push(SOp::Solve(vec![1]));
            ops.push(SOp::Solve(vec![-1, -2]));
            ops.push(SOp::Solve0);
            if rng.chance(1, 2) { ops.push(SOp::Solve(vec![-1])); }
            ops.push(SOp::Add(vec![1]));
            ops.push(SOp::Solve0);
            ops.push(SOp::Add(vec![2]));
            ops.push(SOp::Solve0);
            ops.push(SOp::Solve(vec![3]));
        }
        "php" => {
            // pigeons p in 0..=h, holes 0..h : variable p*h + j + 1
            let h = rng.range(1, 3);
            let var = |p: usize, j: usize| (p * h + j + 1) as isize;
            for p in 0..=h { ops.push(SOp::Add((0..h).map(|j| var(p, j)).collect())); }
            ops.push(SOp::Solve0);
            for j in 0..h {
                for p in 0..=h { for q in p + 1..=h { ops.push(SOp::Add(vec![-var(p, j), -var(q, j)])); } }
                if j + 1 < h { ops.push(SOp::Solve(vec![var(0, 0)])); }
            }
            ops.push(SOp::Solve0);
            ops.push(SOp::NVars);
        }
        "dup-taut" => {
            ops.push(SOp::Add(vec![1, 1, -2]));
            ops.push(SOp::Add(vec![3, -3]));
            ops.push(SOp::Add(vec![2, 2]));
            ops.push(SOp::Solve(vec![1, -1]));
            ops.push(SOp::Solve(vec![-1, -1]));
            ops.push(SOp::Solve(vec![1, 1, 2]));
            if rng.chance(1, 2) { ops.push(SOp::Add(vec![])); ops.push(SOp::Solve0); ops.push(SOp::Solve(vec![4])); }
            ops.push(SOp::NVars);
        }
        _ => {
            let dense = recipe == "random-dense";
            let nv = if dense { rng.range(2, 5) } else { rng.range(1, 9) };
            let len = if dense { rng.range(6, 24) } else { rng.range(1, 14) };
            for _ in 0..len {
                match rng.below(100) {
                    0..=54 => ops.push(SOp::Add(rand_clause(rng, nv))),
                    55..=62 => ops.push(SOp::Res(rng.range(0, nv + 4))),
                    63..=72 => ops.push(SOp::NVars),
                    73..=78 => ops.push(SOp::Solve0),
                    _ => {
                        let k = rng.below(4);
                        let hi = if rng.chance(1, 4) { nv + 3 } else { nv };
                        ops.push(SOp::Solve((0..k).map(|_| rand_lit(rng, hi)).collect()));
                    }
                }
            }
            if dense && !rng.chance(1, 5) {
                // ensure an UNSAT tail fairly often: all sign patterns over two variables
                if rng.chance(1, 3) {
                    for c in [[1, 2], [1, -2], [-1, 2], [-1, -2]] { ops.push(SOp::Add(c.to_vec())); }
                }
            }
            ops.push(SOp::Solve0);
        }
    }
    // bound the number of solver calls
    let mut n = 0;
    ops.retain(|o| match o {
        SOp::Solve(_) | SOp::Solve0 => { n += 1; n <= max_solves }
        _ => true,
    });
    ops
}

fn lits(v: &[isize]) -> Vec<Literal> {
    v.iter().map(|x| Literal::from(*x)).collect()
}

fn result_to_string(r: &SolvingResult) -> String {
    match r {
        SolvingResult::Satisfiable(a) => format!("S {}", assignment_to_string(a)),
        SolvingResult::Unsatisfiable => "U".to_string(),
        SolvingResult::Unknown => "X".to_string(),
    }
}

/// Applies one operation; a panic is an observation.
pub fn apply_sop(s: &mut dyn SatSolver, op: &SOp) -> String {
    let r = guarded(|| match op {
        SOp::Add(c) => { s.add_clause(lits(c)); "unit".to_string() }
        SOp::Res(n) => { s.reserve(*n); "unit".to_string() }
        SOp::NVars => format!("nv {}", s.n_vars()),
        SOp::Solve(a) => result_to_string(&s.solve_under_assumptions(&lits(a))),
        SOp::Solve0 => result_to_string(&s.solve()),
    });
    match r {
        Ok(x) => x,
        Err(m) => format!("panic {}", m),
    }
}

fn last_line(path: &str, seen: &mut usize) -> Vec<String> {
    let txt = std::fs::read_to_string(path).unwrap_or_default();
    let all: Vec<&str> = txt.lines().collect();
    let new: Vec<String> = all[(*seen).min(all.len())..].iter().map(|x| x.to_string()).collect();
    *seen = all.len();
    new
}

/// satobj: every history on both backends, every observation recorded.
pub fn run_satobj(rng: &mut Rng, count: usize, thorough: bool, extra: &[String], out: &mut Out) {
    let env = Env::from_extra(extra);
    for k in 0..count {
        let recipe = if rng.chance(1, 50) { "wide" } else if rng.chance(1, 2) { RECIPES[k % RECIPES.len()] } else { *rng.pick(&RECIPES) };
        let ops = gen_history(rng, recipe, if thorough { 10 } else { 7 });
        out.case(&format!("satobj/{}", recipe));
        for o in ops.iter() { out.inp(&o.to_line()); }
        let mut cad: Box<dyn SatSolver> = Box::<CadicalSolver>::default();
        for (i, o) in ops.iter().enumerate() {
            let r = apply_sop(cad.as_mut(), o);
            let stop = r.starts_with("panic");
            out.out(&format!("cad {} {}", i, r));
            if stop { break; }
        }
        let mut ext: Box<dyn SatSolver> = Box::new(ExternalSatSolver::new(env.vdpll.clone(), vec![]));
        for (i, o) in ops.iter().enumerate() {
            let r = apply_sop(ext.as_mut(), o);
            let stop = r.starts_with("panic");
            out.out(&format!("ext {} {}", i, r));
            if stop { break; }
        }
        out.end();
    }
}


// ------------------------------------------------------------------------------------ in-process
// BufferedSatSolver driven directly (crustabri::sat::verif_hooks, cfg(crustabri_verif)): the solving
// function is a closure of the harness, so the way the instance is READ and the way the reply is
// DELIVERED can be chosen adversarially, which a child process cannot do (std's read_to_string /
// the OS pipe decide the chunking there).

pub const READ_POLICIES: [&str; 8] =
    ["byte", "small-fixed", "random", "preamble", "preamble-1", "preamble+1", "huge", "zero-interleaved"];

/// Reads `r` to the end with the given buffer-size policy.  Returns (bytes, number of read calls).
/// After the first `Ok(0)` on a non-empty buffer one more read is issued (end of file must be
/// stable); a zero-length buffer must yield `Ok(0)` and consume nothing.
fn read_adversarial(r: &mut dyn Read, policy: &str, preamble_len: usize, rng: &mut Rng) -> (Vec<u8>, usize) {
    let mut all: Vec<u8> = Vec::new();
    let mut calls = 0usize;
    let fixed = match policy {
        "byte" => 1,
        "small-fixed" => rng.range(2, 17),
        "preamble" => preamble_len.max(1),
        "preamble-1" => preamble_len.saturating_sub(1).max(1),
        "preamble+1" => preamble_len + 1,
        "huge" => 1 << 20,
        _ => 0,
    };
    let mut buf: Vec<u8> = vec![0u8; (1 << 20).max(fixed)];
    loop {
        if policy == "zero-interleaved" && rng.chance(1, 2) {
            calls += 1;
            match r.read(&mut buf[..0]) {
                Ok(0) => {}
                Ok(n) => all.extend_from_slice(format!("<zero-length read returned {}>", n).as_bytes()),
                Err(e) => all.extend_from_slice(format!("<read error {}>", e).as_bytes()),
            }
        }
        let sz = if fixed > 0 { fixed } else { rng.range(1, 64) };
        calls += 1;
        match r.read(&mut buf[..sz]) {
            Ok(0) => break,
            Ok(n) if n <= sz => all.extend_from_slice(&buf[..n]),
            Ok(n) => {
                all.extend_from_slice(format!("<read returned {} for a buffer of {}>", n, sz).as_bytes());
                break;
            }
            Err(e) => {
                all.extend_from_slice(format!("<read error {}>", e).as_bytes());
                break;
            }
        }
    }
    // end of file is stable
    calls += 1;
    if let Ok(n) = r.read(&mut buf[..7]) {
        if n > 0 {
            all.extend_from_slice(b"<data after end of file>");
            all.extend_from_slice(&buf[..n]);
        }
    }
    (all, calls)
}

/// Pipes `input` to `prog args..` and returns its standard output (what ExternalSatSolver does,
/// without the object under test in between).
fn pipe_through(prog: &str, args: &[String], input: &[u8]) -> Vec<u8> {
    use std::io::Write;
    use std::process::{Command, Stdio};
    let mut child = Command::new(prog)
        .args(args)
        .stdin(Stdio::piped())
        .stdout(Stdio::piped())
        .stderr(Stdio::null())
        .spawn()
        .expect("cannot start the reference solver");
    let mut stdin = child.stdin.take().unwrap();
    let data = input.to_vec();
    let w = std::thread::spawn(move || {
        let _ = stdin.write_all(&data);
    });
    let mut outp = Vec::new();
    let _ = child.stdout.take().unwrap().read_to_end(&mut outp);
    let _ = w.join();
    let _ = child.wait();
    outp
}

/// A reader delivering `data` in chunks chosen by a policy (the reply side of the exchange).
struct ChunkedReply {
    data: Vec<u8>,
    pos: usize,
    policy: usize, // 0 whole, 1 byte by byte, 2 fixed small, 3 random
    k: usize,
    rng: Rng,
}
impl Read for ChunkedReply {
    fn read(&mut self, buf: &mut [u8]) -> std::io::Result<usize> {
        let left = self.data.len() - self.pos;
        if left == 0 || buf.is_empty() {
            return Ok(0);
        }
        let want = match self.policy {
            0 => left,
            1 => 1,
            2 => self.k,
            _ => self.rng.range(1, 9),
        };
        let n = want.min(left).min(buf.len());
        buf[..n].copy_from_slice(&self.data[self.pos..self.pos + n]);
        self.pos += n;
        Ok(n)
    }
}

/// One history on a BufferedSatSolver whose solving function reads the instance adversarially and
/// asks the reference solver for the reply.  Prints the OUT lines of `dimacs/hist`.
fn run_hist_inproc(rng: &mut Rng, env: &Env, ops: &[SOp], out: &mut Out) {
    let log: Rc<RefCell<Vec<(String, usize, Vec<u8>)>>> = Rc::new(RefCell::new(Vec::new()));
    let pre_len: Rc<RefCell<usize>> = Rc::new(RefCell::new(0));
    let frng: Rc<RefCell<Rng>> = Rc::new(RefCell::new(Rng::new(rng.next())));
    let (l2, p2, r2, vdpll) = (log.clone(), pre_len.clone(), frng.clone(), env.vdpll.clone());
    let f: Box<dyn Fn(DimacsInstanceRead) -> Box<dyn Read>> = Box::new(move |mut inst| {
        let mut rg = r2.borrow_mut();
        let policy = *rg.pick(&READ_POLICIES);
        let (bytes, calls) = read_adversarial(&mut inst, policy, *p2.borrow(), &mut rg);
        let reply = pipe_through(&vdpll, &[], &bytes);
        l2.borrow_mut().push((policy.to_string(), calls, bytes));
        let (pol, k, seed) = (rg.below(4), rg.range(2, 7), rg.next());
        Box::new(ChunkedReply { data: reply, pos: 0, policy: pol, k, rng: Rng::new(seed) })
    });
    let mut s: Box<dyn SatSolver> = Box::new(BufferedSatSolver::new(f));
    // what the preamble of the next instance should look like (only used to size a buffer)
    let (mut nv, mut nc) = (0usize, 0usize);
    for (i, o) in ops.iter().enumerate() {
        match o {
            SOp::Add(c) => {
                nc += 1;
                for l in c { nv = nv.max(l.unsigned_abs()); }
            }
            SOp::Res(n) => nv = nv.max(*n),
            SOp::Solve(a) => {
                for l in a { nv = nv.max(l.unsigned_abs()); }
                *pre_len.borrow_mut() = format!("p cnf {} {}\n", nv, nc + a.len()).len();
            }
            SOp::Solve0 => *pre_len.borrow_mut() = format!("p cnf {} {}\n", nv, nc).len(),
            SOp::NVars => {}
        }
        let r = apply_sop(s.as_mut(), o);
        let stop = r.starts_with("panic");
        out.out(&format!("ext {} {}", i, r));
        for (policy, calls, bytes) in log.borrow_mut().drain(..) {
            out.ev(&format!("{} read {} calls={} len={}", i, policy, calls, bytes.len()));
            out.out(&format!("inst {} {}", i, hex(&bytes)));
        }
        if stop { break; }
    }
}

// ------------------------------------------------------------------------------------ dimacs

/// A SatSolver forwarding to an `ExternalSatSolver(vdpll --dump F)`, logging every call and, after
/// every solve, the exact bytes the external program received.
struct Tap {
    inner: Box<dyn SatSolver>,
    log: Rc<RefCell<Vec<String>>>,
    id: usize,
    dump: String,
    seen: Rc<RefCell<usize>>,
}

impl Tap {
    fn ev(&self, s: String) {
        self.log.borrow_mut().push(format!("{} {}", self.id, s));
    }
}

impl SatSolver for Tap {
    fn add_clause(&mut self, cl: Vec<Literal>) {
        self.ev(format!("cl {}", lits_to_string(&cl)));
        self.inner.add_clause(cl)
    }
    fn solve(&mut self) -> SolvingResult {
        self.solve_under_assumptions(&[])
    }
    fn solve_under_assumptions(&mut self, assumptions: &[Literal]) -> SolvingResult {
        let r = self.inner.solve_under_assumptions(assumptions);
        self.ev(format!("solve {} => {}", lits_to_string(assumptions), result_to_string(&r)));
        let mut seen = self.seen.borrow_mut();
        for l in last_line(&self.dump, &mut seen) {
            self.log.borrow_mut().push(format!("{} inst {}", self.id, l));
        }
        r
    }
    fn n_vars(&self) -> usize {
        let n = self.inner.n_vars();
        self.ev(format!("nv {}", n));
        n
    }
    fn add_listener(&mut self, listener: Box<dyn SolvingListener>) {
        self.inner.add_listener(listener)
    }
    fn reserve(&mut self, new_max_id: usize) {
        self.ev(format!("res {}", new_max_id));
        self.inner.reserve(new_max_id)
    }
}

const SAT_PROBLEMS: [(&str, &str); 15] = [
    ("CO", "DC"),
    ("ST", "SE"), ("ST", "DC"), ("ST", "DS"),
    ("PR", "SE"), ("PR", "DS"),
    ("SST", "SE"), ("SST", "DC"), ("SST", "DS"),
    ("STG", "SE"), ("STG", "DC"), ("STG", "DS"),
    ("ID", "SE"), ("ID", "DC"), ("ID", "DS"),
];

/// dimacs: the bytes received by the external solver, for histories and for argumentation queries.
pub fn run_dimacs(rng: &mut Rng, count: usize, thorough: bool, extra: &[String], out: &mut Out) {
    let env = Env::from_extra(extra);
    let first_shard = (0..extra.len()).all(|i| extra[i] != "--shard" || extra[i + 1].starts_with("0/"));
    for k in 0..count {
        let dump = env.file(&format!("dump{}.txt", k));
        let _ = std::fs::remove_file(&dump);
        if k % 3 == 2 {
            // a history on a BufferedSatSolver driven in-process: adversarial reads of the instance
            let recipe = if k == 2 && first_shard { "bulk" } else { RECIPES[(k / 3) % RECIPES.len()] };
            let ops = gen_history(rng, recipe, if thorough { 8 } else { 5 });
            out.case(&format!("dimacs/hist-inproc/{}", recipe));
            for o in ops.iter() { out.inp(&o.to_line()); }
            run_hist_inproc(rng, &env, &ops, out);
            out.end();
        } else if k % 3 == 0 {
            // a history on the solver object itself
            // the first history of the first shard is the bulk one (instance text above 64 KiB)
            let recipe = if k == 0 && first_shard { "bulk" } else { RECIPES[(k / 3) % RECIPES.len()] };
            let ops = gen_history(rng, recipe, if thorough { 8 } else { 5 });
            out.case(&format!("dimacs/hist/{}", recipe));
            for o in ops.iter() { out.inp(&o.to_line()); }
            let mut ext: Box<dyn SatSolver> =
                Box::new(ExternalSatSolver::new(env.vdpll.clone(), vec!["--dump".to_string(), dump.clone()]));
            let mut seen = 0usize;
            for (i, o) in ops.iter().enumerate() {
                let r = apply_sop(ext.as_mut(), o);
                let stop = r.starts_with("panic");
                out.out(&format!("ext {} {}", i, r));
                for l in last_line(&dump, &mut seen) { out.out(&format!("inst {} {}", i, l)); }
                if stop { break; }
            }
            out.end();
        } else {
            // an argumentation query through the external backend
            let g = gen_af(rng, if thorough { 6 } else { 5 });
            let af = build_af(&g.build);
            let (sem, q) = *rng.pick(&SAT_PROBLEMS);
            if q != "SE" && af.n_arguments() == 0 {
                out.case("dimacs/af/skipped");
                out.end();
                continue;
            }
            let encs = statics::encoders_for(sem, q);
            let mut enc = *rng.pick(&encs);
            // the exp encoder is exponential in the product of the defender-set sizes (a performance
            // matter outside the properties): keep the sessions small enough to be replayed as text
            if enc == "exp_co" && statics::max_defender_product(&af) > 64 { enc = "hyb_co"; }
            let cert = q != "SE" && rng.chance(1, 2);
            let args = if q == "SE" { vec![] } else { statics::pick_args(rng, &af, 2) };
            out.case(&format!("dimacs/af/{}/{}/{}/{}", sem, q, if cert { "cert" } else { "nocert" }, enc));
            out.inp(&format!("recipe {}", g.recipe));
            write_build(out, &g.build);
            out.inp(&format!("args {}", join(args.iter(), " ")));
            let log: Rc<RefCell<Vec<String>>> = Rc::new(RefCell::new(Vec::new()));
            let seen = Rc::new(RefCell::new(0usize));
            let nsess = Rc::new(RefCell::new(0usize));
            let (l2, s2, n2, v2, d2) = (log.clone(), seen.clone(), nsess.clone(), env.vdpll.clone(), dump.clone());
            let fac: Box<dyn Fn() -> Box<dyn SatSolver>> = Box::new(move || {
                let id = { let mut n = n2.borrow_mut(); *n += 1; *n };
                l2.borrow_mut().push(format!("{} new", id));
                Box::new(Tap {
                    inner: Box::new(ExternalSatSolver::new(v2.clone(), vec!["--dump".to_string(), d2.clone()])),
                    log: l2.clone(), id, dump: d2.clone(), seen: s2.clone(),
                })
            });
            let r = guarded(|| statics::run_query(&af, sem, q, cert, enc, &args, fac));
            for l in log.borrow().iter() { out.ev(l); }
            match r {
                Ok(o) => out.out(&o.to_line()),
                Err(m) => out.out(&format!("panic {}", m)),
            }
            out.end();
        }
        let _ = std::fs::remove_file(&dump);
    }
}

// ------------------------------------------------------------------------------------ reply

fn push_filler(rng: &mut Rng, b: &mut Vec<u8>) {
    match rng.below(6) {
        0 => b.extend_from_slice(b"c\n"),
        1 => b.extend_from_slice(b"\n"),
        2 => b.extend_from_slice(b"v\n"),
        3 => b.extend_from_slice(b"c \n"),
        _ => {
            b.extend_from_slice(b"c ");
            for _ in 0..rng.below(12) { b.push(*rng.pick(b"abc xyz=:-0123456789 svc")); }
            b.push(b'\n');
        }
    }
}

fn fillers(rng: &mut Rng, b: &mut Vec<u8>, max: usize) {
    for _ in 0..rng.below(max + 1) { push_filler(rng, b); }
}

fn model_lits(m: &[Option<bool>]) -> Vec<isize> {
    m.iter().enumerate().filter_map(|(i, v)| v.map(|b| if b { i as isize + 1 } else { -(i as isize + 1) })).collect()
}

/// A well-formed SAT reply for model `m`; returns (bytes, offset of the terminating "0" token).
fn render_sat(rng: &mut Rng, m: &[Option<bool>], sep: &[u8], eol: &[u8], plus: bool) -> (Vec<u8>, usize) {
    let mut b = Vec::new();
    let status_last = rng.chance(1, 4);
    fillers(rng, &mut b, 2);
    if !status_last { b.extend_from_slice(b"s SATISFIABLE"); b.extend_from_slice(eol); }
    let ls = model_lits(m);
    let mut i = 0;
    let zero_at;
    loop {
        if rng.chance(1, 3) { fillers(rng, &mut b, 2); }
        let k = match rng.below(4) { 0 => 0, 1 => 1, 2 => rng.range(1, 4), _ => ls.len() };
        let last = i + k >= ls.len() && rng.chance(2, 3);
        b.push(b'v');
        let mut first = true;
        for l in ls[i..(i + k).min(ls.len())].iter() {
            if first { b.push(b' ') } else { b.extend_from_slice(sep) }
            first = false;
            if plus && *l > 0 { b.push(b'+'); }
            b.extend_from_slice(l.to_string().as_bytes());
        }
        i = (i + k).min(ls.len());
        if last {
            if first { b.push(b' ') } else { b.extend_from_slice(sep) }
            zero_at = b.len();
            b.push(b'0');
            b.extend_from_slice(eol);
            break;
        }
        b.extend_from_slice(eol);
    }
    if status_last { b.extend_from_slice(b"s SATISFIABLE"); b.extend_from_slice(eol); }
    fillers(rng, &mut b, 2);
    (b, zero_at)
}

fn bits(m: &[Option<bool>]) -> String {
    if m.is_empty() { return "e".to_string(); }
    m.iter().map(|v| match v { Some(true) => '1', Some(false) => '0', None => '-' }).collect()
}

pub const REPLY_CLASSES: [&str; 17] = [
    "sat-layout", "sat-layout", "sat-layout", "unsat", "empty", "nostatus", "truncated", "truncated", "garbage",
    "status-only", "oob", "multi-zero", "multi-status", "crlf", "tabs-plus", "utf8", "mutated",
];

/// reply: stub replies through the real reader of `ExternalSatSolver` (program: `vdpll --print-file`).
pub fn run_reply(rng: &mut Rng, count: usize, _thorough: bool, extra: &[String], out: &mut Out) {
    let env = Env::from_extra(extra);
    // `--proc-every N`: one case in N goes through a real child process (ExternalSatSolver on
    // `vdpll --print-file`), the others are returned by the solving function of an in-process
    // BufferedSatSolver, delivered in chunks of adversarial sizes (default: every case by process)
    let mut proc_every = 1usize;
    for i in 0..extra.len() {
        if extra[i] == "--proc-every" { proc_every = extra[i + 1].parse().unwrap(); }
    }
    for k in 0..count {
        let class = if rng.chance(1, 2) { REPLY_CLASSES[k % REPLY_CLASSES.len()] } else { *rng.pick(&REPLY_CLASSES) };
        let n = rng.range(0, 9);
        let m: Vec<Option<bool>> = (0..n).map(|_| match rng.below(8) { 0 => None, x => Some(x % 2 == 0) }).collect();
        let mut expect = "any".to_string();
        let mut bytes: Vec<u8>;
        match class {
            "sat-layout" => { bytes = render_sat(rng, &m, b" ", b"\n", false).0; expect = format!("S {}", bits(&m)); }
            "crlf" => { bytes = render_sat(rng, &m, b" ", b"\r\n", false).0; expect = format!("S {}", bits(&m)); }
            "tabs-plus" => {
                let sep: &[u8] = if rng.chance(1, 2) { b"\t" } else { b"  " };
                let plus = rng.chance(1, 2);
                bytes = render_sat(rng, &m, sep, b"\n", plus).0;
                expect = format!("S {}", bits(&m));
            }
            "unsat" => {
                bytes = Vec::new();
                fillers(rng, &mut bytes, 3);
                bytes.extend_from_slice(b"s UNSATISFIABLE\n");
                fillers(rng, &mut bytes, 3);
                expect = "U".to_string();
            }
            "empty" => { bytes = Vec::new(); expect = "notanswer".to_string(); }
            "nostatus" => {
                let (b, _) = render_sat(rng, &m, b" ", b"\n", false);
                let txt = String::from_utf8(b).unwrap();
                bytes = txt.split_inclusive('\n').filter(|l| !l.starts_with("s ")).collect::<String>().into_bytes();
                expect = "notanswer".to_string();
            }
            "truncated" => {
                let (b, z) = render_sat(rng, &m, b" ", b"\n", false);
                let cut = if rng.chance(1, 3) { z } else { rng.below(z + 1) };
                bytes = b[..cut].to_vec();
                expect = "notanswer".to_string();
            }
            "garbage" => {
                let (b, _) = render_sat(rng, &m, b" ", b"\n", false);
                let txt = String::from_utf8(b).unwrap();
                let mut ls: Vec<&str> = txt.split_inclusive('\n').collect();
                let g = *rng.pick(&["foo\n", "s UNKNOWN\n", "vx 1\n", "cx\n", "s SATISFIABLE \n", " v 1 0\n", "v\t0\n", "p cnf 1 1\n"]);
                let at = rng.below(ls.len() + 1);
                ls.insert(at, g);
                bytes = ls.concat().into_bytes();
                expect = "notanswer".to_string();
            }
            "status-only" => {
                bytes = Vec::new();
                fillers(rng, &mut bytes, 2);
                bytes.extend_from_slice(b"s SATISFIABLE\n");
                fillers(rng, &mut bytes, 2);
                expect = "notanswer".to_string();
            }
            "oob" => {
                let mut mm = m.clone();
                mm.push(Some(rng.chance(1, 2)));
                if rng.chance(1, 3) { for _ in 0..rng.range(1, 30) { mm.push(None); } mm.push(Some(true)); }
                bytes = render_sat(rng, &mm, b" ", b"\n", false).0;
                expect = "notanswer".to_string();
            }
            "multi-zero" => {
                let (b, _) = render_sat(rng, &m, b" ", b"\n", false);
                let txt = String::from_utf8(b).unwrap();
                let mut ls: Vec<&str> = txt.split_inclusive('\n').collect();
                let at = rng.below(ls.len() + 1);
                ls.insert(at, "v 0\n");
                bytes = ls.concat().into_bytes();
                expect = "notanswer".to_string();
            }
            "multi-status" => {
                let (b, _) = render_sat(rng, &m, b" ", b"\n", false);
                let txt = String::from_utf8(b).unwrap();
                let mut ls: Vec<&str> = txt.split_inclusive('\n').collect();
                let at = rng.below(ls.len() + 1);
                ls.insert(at, if rng.chance(1, 2) { "s SATISFIABLE\n" } else { "s UNSATISFIABLE\n" });
                bytes = ls.concat().into_bytes();
                expect = "notanswer".to_string();
            }
            "utf8" => {
                let (b, _) = render_sat(rng, &m, b" ", b"\n", false);
                bytes = Vec::new();
                if rng.chance(1, 2) {
                    bytes.extend_from_slice("c caf\u{e9} \u{20ac} \u{1F600}\n".as_bytes());
                    expect = format!("S {}", bits(&m));
                } else {
                    bytes.extend_from_slice(b"c bad ");
                    bytes.extend_from_slice(*rng.pick(&[&b"\xff"[..], &b"\xc3"[..], &b"\xe0\x80\x80"[..], &b"\xed\xa0\x80"[..], &b"\xf4\x90\x80\x80"[..], &b"\x80"[..], &b"\xc0\xaf"[..]]));
                    bytes.push(b'\n');
                    expect = "notanswer".to_string();
                }
                bytes.extend_from_slice(&b);
            }
            _ => {
                let (b, _) = render_sat(rng, &m, b" ", b"\n", false);
                bytes = b;
                for _ in 0..rng.range(1, 3) {
                    let at = rng.below(bytes.len() + 1);
                    match rng.below(7) {
                        0 if at < bytes.len() => { bytes[at] ^= 1 << rng.below(7); }
                        1 => bytes.insert(at, rng.range(0x80, 0xff) as u8),
                        2 => bytes.insert(at, b'\r'),
                        3 => bytes.insert(at, *rng.pick(b"\t\x0b\x0c +-0")),
                        4 if at < bytes.len() => { bytes.remove(at); }
                        5 => bytes.insert(at, b'\n'),
                        _ => bytes.insert(at, *rng.pick(b"0123456789")),
                    }
                }
                if rng.chance(1, 6) { bytes.extend_from_slice(b"v 99999999999999999999 0\n"); }
            }
        }
        if proc_every > 1 && k % proc_every != 0 {
            out.case(&format!("reply-inproc/{}", class));
            out.inp(&format!("nvars {}", n));
            out.inp(&format!("bytes {}", hex(&bytes)));
            out.inp(&format!("expect {}", expect));
            let (pol, kk, seed, rd) = (rng.below(4), rng.range(2, 7), rng.next(), rng.chance(1, 2));
            out.inp(&format!("delivery {}", ["whole", "byte", "fixed", "random"][pol]));
            let data = bytes.clone();
            let f: Box<dyn Fn(DimacsInstanceRead) -> Box<dyn Read>> = Box::new(move |mut inst| {
                if rd {
                    let mut sink = Vec::new();
                    let _ = inst.read_to_end(&mut sink);
                }
                Box::new(ChunkedReply { data: data.clone(), pos: 0, policy: pol, k: kk, rng: Rng::new(seed) })
            });
            let mut s = BufferedSatSolver::new(f);
            s.reserve(n);
            let r = guarded(|| result_to_string(&s.solve()));
            match r {
                Ok(x) => out.out(&x),
                Err(msg) => out.out(&format!("panic {}", msg)),
            }
            out.end();
            continue;
        }
        let f = env.file(&format!("reply{}.txt", k));
        std::fs::write(&f, &bytes).unwrap();
        out.case(&format!("reply/{}", class));
        out.inp(&format!("nvars {}", n));
        out.inp(&format!("bytes {}", hex(&bytes)));
        out.inp(&format!("expect {}", expect));
        let mut s = ExternalSatSolver::new(env.vdpll.clone(), vec!["--print-file".to_string(), f.clone()]);
        s.reserve(n);
        let r = guarded(|| result_to_string(&s.solve()));
        match r {
            Ok(x) => out.out(&x),
            Err(msg) => out.out(&format!("panic {}", msg)),
        }
        out.end();
        let _ = std::fs::remove_file(&f);
    }
}

// ------------------------------------------------------------------------------------ pipe

/// Measures how many bytes fit into a pipe nobody reads (writes of 1 KiB until the writer blocks).
fn measure_pipe_capacity() -> usize {
    use std::io::Write;
    use std::process::{Command, Stdio};
    use std::sync::atomic::{AtomicUsize, Ordering};
    use std::sync::Arc;
    let mut child = match Command::new("sleep").arg("2").stdin(Stdio::piped()).stdout(Stdio::null()).spawn() {
        Ok(c) => c,
        Err(_) => return 0,
    };
    let mut stdin = child.stdin.take().unwrap();
    let written = Arc::new(AtomicUsize::new(0));
    let w2 = written.clone();
    std::thread::spawn(move || {
        let block = [b'x'; 1024];
        loop {
            if stdin.write_all(&block).is_err() { break; }
            w2.fetch_add(1024, Ordering::SeqCst);
        }
    });
    std::thread::sleep(std::time::Duration::from_millis(400));
    let n = written.load(Ordering::SeqCst);
    let _ = child.kill();
    let _ = child.wait();
    n
}

/// pipe: solver stubs emitting 1 KiB ... 4 MiB before the answer, reading all / none of stdin, the
/// instance below / above the pipe capacity; every call under a 10 s watchdog.
pub fn run_pipe(rng: &mut Rng, _count: usize, thorough: bool, extra: &[String], out: &mut Out) {
    let env = Env::from_extra(extra);
    let shard: (usize, usize) = {
        let mut s = (0, 1);
        for i in 0..extra.len() {
            if extra[i] == "--shard" {
                let t: Vec<usize> = extra[i + 1].split('/').map(|x| x.parse().unwrap()).collect();
                s = (t[0], t[1]);
            }
        }
        s
    };
    let cap = measure_pipe_capacity();
    let ans = env.file("answer.txt");
    std::fs::write(&ans, b"s SATISFIABLE\nv 1 -2 0\n").unwrap();
    let mut pads: Vec<usize> = vec![0, 1 << 10, 16 << 10, 60 << 10, (64 << 10) - 64, 64 << 10, (64 << 10) + 64, 100 << 10, 256 << 10, 1 << 20, 4 << 20];
    if thorough { pads.extend_from_slice(&[2 << 20, 3 << 20, 8 << 20, 65 << 10, 128 << 10]); }
    for _ in 0..3 { pads.push(rng.range(1, 300 << 10)); }
    // (pad on stdout, reads its input, instance above the pipe capacity, pad on STDERR: the solver's diagnostics are
    // inherited by the caller in the pinned code - whatever their volume the call returns)
    let mut cases: Vec<(usize, bool, bool, usize)> = Vec::new();
    for p in pads.iter() {
        for read_all in [true, false] {
            for big_in in [false, true] {
                cases.push((*p, read_all, big_in, 0));
            }
        }
    }
    for e in [1usize << 10, 100 << 10, 1 << 20] {
        for read_all in [true, false] {
            for big_in in [false, true] {
                cases.push((if e == 100 << 10 { 100 << 10 } else { 0 }, read_all, big_in, e));
            }
        }
    }
    let mine: Vec<(usize, bool, bool, usize)> = cases.into_iter().enumerate().filter(|(i, _)| i % shard.1 == shard.0).map(|(_, c)| c).collect();
    // all calls of this shard run concurrently, each in its own thread; a call that has not
    // returned after 10 s is reported as hung (its thread stays blocked until the process exits)
    let (tx, rx) = std::sync::mpsc::channel::<(usize, String, u128)>();
    let mut in_lens = Vec::new();
    for (idx, (pad, read_all, big_in, errpad)) in mine.iter().enumerate() {
        let n_cl = if *big_in { 50_000 } else { 2 };
        in_lens.push(n_cl);
        let (tx, vdpll, ans, pad, read_all, errpad) = (tx.clone(), env.vdpll.clone(), ans.clone(), *pad, *read_all, *errpad);
        std::thread::spawn(move || {
            let t0 = std::time::Instant::now();
            let mut opts = vec!["--pad".to_string(), pad.to_string()];
            if errpad > 0 { opts.push("--pad-err".to_string()); opts.push(errpad.to_string()); }
            if read_all { opts.push("--print-file".to_string()); opts.push(ans); } else { opts.push("--no-read".to_string()); }
            let r = guarded(|| {
                let mut s = ExternalSatSolver::new(vdpll, opts);
                for i in 0..n_cl { s.add_clause(vec![Literal::from(1), Literal::from(if i % 2 == 0 { -2 } else { 2 })]); }
                result_to_string(&s.solve())
            });
            let txt = match r { Ok(x) => x, Err(m) => format!("panic {}", m) };
            let _ = tx.send((idx, txt, t0.elapsed().as_millis()));
        });
    }
    let deadline = std::time::Instant::now() + std::time::Duration::from_secs(10);
    let mut results: Vec<Option<(String, u128)>> = vec![None; mine.len()];
    let mut got = 0;
    while got < mine.len() {
        let now = std::time::Instant::now();
        if now >= deadline { break; }
        match rx.recv_timeout(deadline - now) {
            Ok((i, txt, ms)) => { results[i] = Some((txt, ms)); got += 1; }
            Err(_) => break,
        }
    }
    for (idx, (pad, read_all, big_in, errpad)) in mine.iter().enumerate() {
        out.case("pipe");
        // size of the instance text: "p cnf 2 N\n" + N lines "1 -2 0\n" / "1 2 0\n"
        let n_cl = in_lens[idx];
        let in_len = format!("p cnf 2 {}\n", n_cl).len() + (n_cl / 2) * 7 + (n_cl - n_cl / 2) * 7 - (n_cl / 2);
        out.inp(&format!("pipe in_len={} pad={} answer=23 read={} big_in={} cap={} errpad={}", in_len, pad, if *read_all { "all" } else { "none" }, big_in, cap, errpad));
        match &results[idx] {
            Some((txt, ms)) => out.out(&format!("returned {} ms={}", txt, ms)),
            None => out.out("hung"),
        }
        out.end();
    }
    // a blocked call keeps its thread (and its child) alive: leave without joining
    if got < mine.len() {
        match std::env::args().position(|a| a == "--out") {
            Some(p) => std::fs::write(&std::env::args().nth(p + 1).unwrap(), &out.buf).unwrap(),
            None => print!("{}", out.buf),
        }
        std::process::exit(0);
    }
}
