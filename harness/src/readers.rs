//! Modes `readers` (C13) and `writers` (C14).
//!
//! readers: byte strings derived from the two grammars with every optional feature toggled
//! independently (stream `grammar`), then token-level corruptions of a well-formed file (stream
//! `token`, the class applied is printed and, for the classes named in the property, the expected
//! verdict `err`), byte-level corruptions (stream `byte`), a fixed list of edge cases (stream
//! `hand`) and `read_arg_from_str` on stores built by histories (stream `readarg`).  Both readers
//! are run on every byte string under `guarded`.
//!
//! writers: stores built by update histories (removals included) over string and usize labels,
//! extensions over both label types, statuses.  The Rust Aspartix reader is applied to the Rust
//! writer's bytes (implementation-level round trip).
//!
//! Label syntax on case lines: usize in decimal; strings as hex code points joined by '.', "-" for
//! the empty string.
use crate::common::*;
use crate::gen::Op;
use crustabri::aa::{AAFramework, Argument, ArgumentSet};
use crustabri::io::{
    AspartixReader, AspartixWriter, Iccma23Reader, Iccma23Writer, InstanceReader, ResponseWriter,
};
use crustabri::utils::LabelType;

/// Declared sizes above this bound are not run (the property speaks about declared sizes that fit
/// in memory; the model builds the label set in unary arithmetic).
const MAX_DECLARED: u128 = 2000;

pub fn str_tok(s: &str) -> String {
    if s.is_empty() {
        "-".to_string()
    } else {
        join(s.chars().map(|c| format!("{:x}", c as u32)), ".")
    }
}

fn obs<T: LabelType>(af: &AAFramework<T>, lab: &dyn Fn(&T) -> String) -> String {
    format!(
        "ok {} ; {}",
        join(af.argument_set().iter().map(|a| lab(a.label())), " "),
        join(
            af.iter_attacks()
                .map(|a| format!("{}>{}", a.attacker().id(), a.attacked().id())),
            " "
        )
    )
}

fn usize_tok(l: &usize) -> String {
    l.to_string()
}
fn string_tok(l: &String) -> String {
    str_tok(l)
}

/// True when some line that looks like a preamble declares more than MAX_DECLARED arguments.
fn declared_too_big(bytes: &[u8]) -> bool {
    let text = String::from_utf8_lossy(bytes);
    for line in text.split('\n') {
        let words: Vec<&str> = line.split_whitespace().collect();
        if words.first() != Some(&"p") {
            continue;
        }
        for w in words.iter().skip(1) {
            let d = w.strip_prefix('+').unwrap_or(w);
            if !d.is_empty() && d.len() <= 30 && d.bytes().all(|b| b.is_ascii_digit()) {
                if let Ok(v) = d.parse::<u128>() {
                    if v > MAX_DECLARED && v <= isize::MAX as u128 {
                        return true;
                    }
                }
            }
        }
    }
    false
}

fn run_iccma(bytes: &[u8]) -> Result<Result<AAFramework<usize>, ()>, String> {
    guarded(|| {
        Iccma23Reader::default()
            .read(&mut &bytes[..])
            .map_err(|_| ())
    })
}
fn run_apx(bytes: &[u8]) -> Result<Result<AAFramework<String>, ()>, String> {
    guarded(|| AspartixReader::default().read(&mut &bytes[..]).map_err(|_| ()))
}

fn res_line<T: LabelType>(
    name: &str,
    r: &Result<Result<AAFramework<T>, ()>, String>,
    lab: &dyn Fn(&T) -> String,
) -> String {
    match r {
        Ok(Ok(af)) => match guarded(|| obs(af, lab)) {
            Ok(s) => format!("{} {}", name, s),
            Err(m) => format!("{} panic observing: {}", name, m),
        },
        Ok(Err(())) => format!("{} err", name),
        Err(m) => format!("{} panic {}", name, m),
    }
}

fn arg_line_iccma(af: &AAFramework<usize>, arg: &str) -> String {
    let h = hex(arg.as_bytes());
    match guarded(|| {
        Iccma23Reader::default()
            .read_arg_from_str(af, arg)
            .map(|a| (a.id(), *a.label()))
            .map_err(|_| ())
    }) {
        Ok(Ok((id, l))) => format!("arg {} ok {} {}", h, id, l),
        Ok(Err(())) => format!("arg {} err", h),
        Err(_) => format!("arg {} panic", h),
    }
}
fn arg_line_apx(af: &AAFramework<String>, arg: &str) -> String {
    let h = hex(arg.as_bytes());
    match guarded(|| {
        AspartixReader::default()
            .read_arg_from_str(af, arg)
            .map(|a| (a.id(), a.label().clone()))
            .map_err(|_| ())
    }) {
        Ok(Ok((id, l))) => format!("arg {} ok {} {}", h, id, str_tok(&l)),
        Ok(Err(())) => format!("arg {} err", h),
        Err(_) => format!("arg {} panic", h),
    }
}

struct Case {
    stream: &'static str,
    fmt: &'static str,
    bytes: Vec<u8>,
    inst: Option<String>,
    feats: Vec<String>,
    class: Option<String>,
    expect: &'static str,
    args: Vec<String>,
}

fn emit(out: &mut Out, c: &Case, skipped: &mut usize) {
    if declared_too_big(&c.bytes) {
        *skipped += 1;
        return;
    }
    out.case(&format!("readers/{}/{}", c.stream, c.fmt));
    out.inp(&format!("fmt {}", c.fmt));
    out.inp(&format!("bytes {}", hex(&c.bytes)));
    if let Some(i) = &c.inst {
        out.inp(&format!("inst {}", i));
    }
    if !c.feats.is_empty() {
        out.inp(&format!("feat {}", c.feats.join(" ")));
    }
    if let Some(k) = &c.class {
        out.inp(&format!("class {}", k));
    }
    out.inp(&format!("expect {}", c.expect));
    for a in &c.args {
        out.inp(&format!("arg {}", hex(a.as_bytes())));
    }
    let ri = run_iccma(&c.bytes);
    let ra = run_apx(&c.bytes);
    out.out(&res_line("iccma", &ri, &usize_tok));
    out.out(&res_line("apx", &ra, &string_tok));
    if c.fmt == "iccma" {
        if let Ok(Ok(af)) = &ri {
            for a in &c.args {
                out.out(&arg_line_iccma(af, a));
            }
        }
    } else if let Ok(Ok(af)) = &ra {
        for a in &c.args {
            out.out(&arg_line_apx(af, a));
        }
    }
    out.end();
}

// ------------------------------------------------------------------ abstract instances

#[derive(Clone)]
struct IccmaInst {
    n: usize,
    atts: Vec<(usize, usize)>, // 1-based, duplicates allowed
}

fn gen_iccma_inst(rng: &mut Rng, thorough: bool) -> IccmaInst {
    let n = match rng.below(20) {
        0 => 0,
        1 => 1,
        2 => rng.range(100, if thorough { 600 } else { 300 }),
        _ => rng.range(1, 12),
    };
    let mut atts = Vec::new();
    if n > 0 {
        let k = match rng.below(6) {
            0 => 0,
            1 => 1,
            _ => rng.range(1, 14),
        };
        for _ in 0..k {
            let a = 1 + rng.below(n);
            let b = if rng.chance(1, 6) { a } else { 1 + rng.below(n) };
            atts.push((a, b));
        }
        // boundary indexes on purpose
        if rng.chance(1, 3) {
            atts.push((n, 1));
        }
        if rng.chance(1, 3) {
            atts.push((1, n));
        }
    }
    IccmaInst { n, atts }
}

const ASCII_BLANKS: [&str; 2] = [" ", "\t"];
// other members of White_Space that cannot end a line
const OTHER_BLANKS: [&str; 8] = [
    "\u{b}", "\u{c}", "\u{85}", "\u{a0}", "\u{1680}", "\u{2003}", "\u{205f}", "\u{3000}",
];

fn blanks(rng: &mut Rng, min: usize, spaces: bool, uws: bool) -> String {
    let mut s = String::new();
    let k = if spaces { rng.range(min, min + 2) } else { min };
    for _ in 0..k {
        if uws && rng.chance(1, 2) {
            s.push_str(OTHER_BLANKS[rng.below(OTHER_BLANKS.len())]);
        } else if spaces {
            s.push_str(ASCII_BLANKS[rng.below(2)]);
        } else {
            s.push(' ');
        }
    }
    s
}

fn num(rng: &mut Rng, v: usize, plus: bool, lz: bool) -> String {
    let mut s = String::new();
    if plus && rng.chance(1, 2) {
        s.push('+');
    }
    if lz && rng.chance(1, 2) {
        for _ in 0..rng.range(1, 3) {
            s.push('0');
        }
    }
    s.push_str(&v.to_string());
    s
}

const COMMENTS: [&str; 7] = [
    "#",
    "# a comment",
    "#p af 7",
    "#1 2",
    "# caf\u{e9} \u{2003}\u{1d7d0}",
    "#\t\t",
    "##",
];

struct Feats {
    eol: usize, // 0 lf, 1 crlf, 2 mixed
    nofinal: bool,
    comments: bool,
    blanktail: usize,
    spaces: bool,
    uws: bool,
    plus: bool,
    lz: bool,
    dups: bool,
}

impl Feats {
    fn random(rng: &mut Rng) -> Feats {
        Feats {
            eol: if rng.chance(1, 2) { 0 } else { rng.range(1, 2) },
            nofinal: rng.chance(1, 3),
            comments: rng.chance(1, 3),
            blanktail: if rng.chance(1, 3) { rng.range(1, 3) } else { 0 },
            spaces: rng.chance(1, 3),
            uws: rng.chance(1, 5),
            plus: rng.chance(1, 4),
            lz: rng.chance(1, 4),
            dups: rng.chance(1, 3),
        }
    }
    fn plain() -> Feats {
        Feats { eol: 0, nofinal: false, comments: false, blanktail: 0, spaces: false, uws: false, plus: false, lz: false, dups: false }
    }
    fn list(&self) -> Vec<String> {
        vec![
            format!("eol={}", ["lf", "crlf", "mixed"][self.eol]),
            format!("nofinal={}", self.nofinal as u8),
            format!("comments={}", self.comments as u8),
            format!("blanktail={}", self.blanktail),
            format!("spaces={}", self.spaces as u8),
            format!("uws={}", self.uws as u8),
            format!("plus={}", self.plus as u8),
            format!("lz={}", self.lz as u8),
            format!("dups={}", self.dups as u8),
        ]
    }
}

/// Joins logical lines with the chosen line terminators.
fn join_lines(rng: &mut Rng, lines: &[String], f: &Feats) -> Vec<u8> {
    let mut s = String::new();
    let last = lines.len().saturating_sub(1);
    for (i, l) in lines.iter().enumerate() {
        s.push_str(l);
        // a missing final newline only makes sense after a non-empty last line
        if i == last && f.nofinal && !l.is_empty() {
            break;
        }
        let crlf = match f.eol {
            0 => false,
            1 => true,
            _ => rng.chance(1, 2),
        };
        s.push_str(if crlf { "\r\n" } else { "\n" });
    }
    s.into_bytes()
}

fn iccma_lines(rng: &mut Rng, inst: &IccmaInst, f: &Feats) -> Vec<String> {
    let mut lines = Vec::new();
    let pre = |rng: &mut Rng| blanks(rng, 0, f.spaces, f.uws);
    let sep = |rng: &mut Rng| blanks(rng, 1, f.spaces, f.uws);
    let l0 = format!(
        "{}p{}af{}{}{}",
        pre(rng),
        sep(rng),
        sep(rng),
        num(rng, inst.n, f.plus, f.lz),
        pre(rng)
    );
    // a line must not start with '#' and must not be empty: guaranteed (starts with blank or 'p')
    lines.push(l0);
    for (a, b) in &inst.atts {
        lines.push(format!(
            "{}{}{}{}{}",
            pre(rng),
            num(rng, *a, f.plus, f.lz),
            sep(rng),
            num(rng, *b, f.plus, f.lz),
            pre(rng)
        ));
    }
    if f.comments {
        let k = rng.range(1, 3);
        for _ in 0..k {
            let pos = rng.below(lines.len() + 1);
            lines.insert(pos, COMMENTS[rng.below(COMMENTS.len())].to_string());
        }
    }
    for _ in 0..f.blanktail {
        lines.push(String::new());
        if f.comments && rng.chance(1, 3) {
            lines.push(COMMENTS[rng.below(COMMENTS.len())].to_string());
        }
    }
    lines
}

fn iccma_inst_line(inst: &IccmaInst) -> String {
    format!(
        "iccma {} ; {}",
        inst.n,
        join(inst.atts.iter().map(|(a, b)| format!("{}>{}", a - 1, b - 1)), " ")
    )
}

fn iccma_args(rng: &mut Rng, n: usize) -> Vec<String> {
    let mut v: Vec<String> = vec![
        "0".into(),
        "1".into(),
        n.to_string(),
        (n + 1).to_string(),
        "+1".into(),
        "01".into(),
        "-1".into(),
        "-0".into(),
        "".into(),
        " 1".into(),
        "1 ".into(),
        "a".into(),
        "\u{661}".into(),
        "18446744073709551615".into(),
        "18446744073709551616".into(),
        "+".into(),
    ];
    if n > 1 {
        v.push((1 + rng.below(n)).to_string());
    }
    rng.shuffle(&mut v);
    v.truncate(6);
    v
}

// ---------------- Aspartix

#[derive(Clone)]
struct ApxInst {
    decls: Vec<String>,            // declaration order, duplicates allowed
    atts: Vec<(String, String)>,   // duplicates allowed
}

const UDIGITS: [char; 5] = ['\u{663}', '\u{969}', '\u{ff15}', '\u{1d7d0}', '\u{9e9}'];

fn gen_ident(rng: &mut Rng, udigit: bool) -> String {
    const START: &[u8] = b"_abcxyzABZ";
    const REST: &[u8] = b"_abcxyzABZ0189";
    let mut s = String::new();
    s.push(START[rng.below(START.len())] as char);
    let k = match rng.below(4) {
        0 => 0,
        1 => 1,
        _ => rng.range(0, 5),
    };
    for _ in 0..k {
        if udigit && rng.chance(1, 3) {
            s.push(UDIGITS[rng.below(UDIGITS.len())]);
        } else {
            s.push(REST[rng.below(REST.len())] as char);
        }
    }
    s
}

fn gen_ident_p(rng: &mut Rng, num: usize, den: usize) -> String {
    let u = rng.chance(num, den);
    gen_ident(rng, u)
}

fn gen_apx_inst(rng: &mut Rng, udigit: bool, dups: bool) -> ApxInst {
    let n = match rng.below(10) {
        0 => 0,
        1 => 1,
        _ => rng.range(1, 9),
    };
    let mut uniq: Vec<String> = Vec::new();
    while uniq.len() < n {
        let l = gen_ident(rng, udigit);
        if !uniq.contains(&l) {
            uniq.push(l);
        }
    }
    let mut decls = uniq.clone();
    if dups && n > 0 {
        for _ in 0..rng.range(1, 3) {
            let l = uniq[rng.below(n)].clone();
            let pos = rng.below(decls.len() + 1);
            decls.insert(pos, l);
        }
    }
    let mut atts = Vec::new();
    if n > 0 {
        let k = match rng.below(5) {
            0 => 0,
            _ => rng.range(1, 12),
        };
        for _ in 0..k {
            let a = uniq[rng.below(n)].clone();
            let b = if rng.chance(1, 6) { a.clone() } else { uniq[rng.below(n)].clone() };
            atts.push((a, b));
        }
        if dups && !atts.is_empty() {
            for _ in 0..rng.range(1, 3) {
                let p = atts[rng.below(atts.len())].clone();
                let pos = rng.below(atts.len() + 1);
                atts.insert(pos, p);
            }
        }
    }
    ApxInst { decls, atts }
}

fn apx_lines(rng: &mut Rng, inst: &ApxInst, f: &Feats) -> Vec<String> {
    let mut lines = Vec::new();
    let pad = |rng: &mut Rng| blanks(rng, 0, f.spaces, f.uws);
    for l in &inst.decls {
        lines.push(format!("{}arg({}{}{}).{}", pad(rng), pad(rng), l, pad(rng), pad(rng)));
    }
    for (a, b) in &inst.atts {
        lines.push(format!(
            "{}att({}{}{},{}{}{}).{}",
            pad(rng), pad(rng), a, pad(rng), pad(rng), b, pad(rng), pad(rng)
        ));
    }
    // blank or whitespace-only lines anywhere (the `comments` toggle is reused: the format has no
    // comments) and at the end
    if f.comments {
        for _ in 0..rng.range(1, 3) {
            let pos = rng.below(lines.len() + 1);
            let b = if rng.chance(1, 2) { String::new() } else { blanks(rng, 1, true, f.uws) };
            lines.insert(pos, b);
        }
    }
    for _ in 0..f.blanktail {
        lines.push(String::new());
    }
    lines
}

fn apx_inst_line(inst: &ApxInst) -> String {
    format!(
        "apx {} ; {}",
        join(inst.decls.iter().map(|l| str_tok(l)), " "),
        join(inst.atts.iter().map(|(a, b)| format!("{}>{}", str_tok(a), str_tok(b))), " ")
    )
}

fn apx_args(rng: &mut Rng, inst: &ApxInst) -> Vec<String> {
    let mut v: Vec<String> = vec!["".into(), "a".into(), "zz9".into(), " a".into(), "a ".into(), "A".into(), "1".into()];
    for l in inst.decls.iter().take(3) {
        v.push(l.clone());
        v.push(format!("{} ", l));
        v.push(l.to_uppercase());
    }
    rng.shuffle(&mut v);
    v.truncate(6);
    v
}

// ------------------------------------------------------------------ streams

fn grammar_case(rng: &mut Rng, thorough: bool) -> Case {
    let f = Feats::random(rng);
    if rng.chance(1, 2) {
        let mut inst = gen_iccma_inst(rng, thorough);
        if f.dups && !inst.atts.is_empty() {
            for _ in 0..rng.range(1, 3) {
                let p = inst.atts[rng.below(inst.atts.len())];
                let pos = rng.below(inst.atts.len() + 1);
                inst.atts.insert(pos, p);
            }
        }
        let lines = iccma_lines(rng, &inst, &f);
        let bytes = join_lines(rng, &lines, &f);
        Case {
            stream: "grammar",
            fmt: "iccma",
            bytes,
            inst: Some(iccma_inst_line(&inst)),
            feats: f.list(),
            class: None,
            expect: "ok",
            args: iccma_args(rng, inst.n),
        }
    } else {
        // `plus` is reused as "Unicode decimal digits inside identifiers"
        let inst = gen_apx_inst(rng, f.plus, f.dups);
        let lines = apx_lines(rng, &inst, &f);
        let bytes = join_lines(rng, &lines, &f);
        let args = apx_args(rng, &inst);
        Case {
            stream: "grammar",
            fmt: "apx",
            bytes,
            inst: Some(apx_inst_line(&inst)),
            feats: f.list(),
            class: None,
            expect: "ok",
            args,
        }
    }
}

/// Token-level corruption of a plainly rendered ICCMA file.  Returns (lines, class, expected).
fn corrupt_iccma(rng: &mut Rng, inst: &IccmaInst) -> (Vec<String>, String, &'static str) {
    let mut inst = inst.clone();
    if inst.n == 0 {
        inst.n = 1;
    }
    if inst.atts.is_empty() {
        inst.atts.push((1, inst.n));
    }
    let n = inst.n;
    let mut lines: Vec<String> = vec![format!("p af {}", n)];
    for (a, b) in &inst.atts {
        lines.push(format!("{} {}", a, b));
    }
    let k = 1 + rng.below(inst.atts.len()); // an attack line
    let side = rng.below(2);
    let set_tok = |line: &str, i: usize, t: &str| -> String {
        let mut w: Vec<String> = line.split(' ').map(|x| x.to_string()).collect();
        w[i] = t.to_string();
        w.join(" ")
    };
    match rng.below(16) {
        0 => {
            lines.remove(0);
            (lines, "missing_header".into(), "err")
        }
        1 => {
            let bad = ["q af", "p aaf", "P af", "p AF", "paf", "p  fa", "c af", "p tgf"];
            let b = bad[rng.below(bad.len())];
            lines[0] = format!("{} {}", b, n);
            (lines, format!("bad_header:{}", b.replace(' ', "_")), "err")
        }
        2 => {
            let bad = ["x", "3.0", "-1", "9223372036854775808", "0x3", "3a", "+", "-", "\u{663}", "1e3", "--1", "+-1"];
            let b = bad[rng.below(bad.len())];
            lines[0] = format!("p af {}", b);
            (lines, format!("bad_header_count:{}", b), "err")
        }
        3 => {
            let v: Vec<String> = vec!["p af".into(), "p".into(), format!("p af {} {}", n, n), format!("p af {} x", n), format!("af {}", n)];
            lines[0] = v[rng.below(v.len())].clone();
            (lines, "header_arity".into(), "err")
        }
        4 => {
            lines[k] = set_tok(&lines[k], side, "0");
            (lines, "index_zero".into(), "err")
        }
        5 => {
            let over = [n + 1, n + 2, 2 * n + 1, n + 1000];
            lines[k] = set_tok(&lines[k], side, &over[rng.below(over.len())].to_string());
            (lines, "index_over".into(), "err")
        }
        6 => {
            let bad = ["x", "1.0", "-1", "9223372036854775808", "99999999999999999999999", "1x", "+", "-", "\u{661}", "1,", "a1", "-0"];
            let b = bad[rng.below(bad.len())];
            lines[k] = set_tok(&lines[k], side, b);
            (lines, format!("index_nonint:{}", b), "err")
        }
        7 => {
            let l = lines[k].clone();
            let first = l.split(' ').next().unwrap().to_string();
            lines[k] = match rng.below(4) {
                0 => first,
                1 => format!("{} 1", l),
                2 => format!("{} {}", l, l),
                _ => format!("{} x", l),
            };
            (lines, "attack_arity".into(), "err")
        }
        8 => {
            // an empty line before some content line (header included)
            let pos = rng.below(lines.len());
            lines.insert(pos, String::new());
            // half of the time one or two comment lines sit between the blank line and the content:
            // a comment must not make the reader forget the blank line
            if rng.chance(1, 2) {
                for _ in 0..rng.range(1, 2) {
                    lines.insert(pos + 1, COMMENTS[rng.below(COMMENTS.len())].to_string());
                }
                (lines, "content_after_blank_and_comment".into(), "err")
            } else {
                (lines, "content_after_blank".into(), "err")
            }
        }
        9 => {
            // second preamble in the middle: read as an attack line with 3 words
            let pos = rng.range(1, lines.len());
            lines.insert(pos, format!("p af {}", n));
            (lines, "second_header".into(), "err")
        }
        10 => {
            // swap the two tokens of an attack line: still well formed
            let w: Vec<&str> = lines[k].split(' ').collect();
            lines[k] = format!("{} {}", w[1], w[0]);
            (lines, "swap_tokens".into(), "any")
        }
        11 => {
            let l = lines[k].clone();
            lines.insert(k, l);
            (lines, "dup_line".into(), "any")
        }
        12 => {
            lines.remove(k);
            (lines, "drop_line".into(), "any")
        }
        13 => {
            // off by one on an index: may stay in range
            let w: Vec<usize> = lines[k].split(' ').map(|x| x.parse().unwrap()).collect();
            let v = if rng.chance(1, 2) { w[side] + 1 } else { w[side] - 1 };
            lines[k] = set_tok(&lines[k], side, &v.to_string());
            let exp = if v == 0 || v > n { "err" } else { "any" };
            (lines, "off_by_one".into(), exp)
        }
        14 => {
            // comment marker not in column 0: the line is content
            let pos = rng.range(1, lines.len());
            lines.insert(pos, " # not a comment".to_string());
            (lines, "indented_comment".into(), "err")
        }
        _ => {
            // a whitespace-only line is NOT an empty line: it is content with 0 words
            let pos = rng.range(1, lines.len());
            lines.insert(pos, " ".to_string());
            (lines, "blank_not_empty".into(), "err")
        }
    }
}

fn corrupt_apx(rng: &mut Rng, inst: &ApxInst) -> (Vec<String>, String, &'static str) {
    let mut inst = inst.clone();
    if inst.decls.is_empty() {
        inst.decls.push("a".into());
    }
    if inst.atts.is_empty() {
        let a = inst.decls[0].clone();
        inst.atts.push((a.clone(), a));
    }
    let nd = inst.decls.len();
    let mut lines: Vec<String> = Vec::new();
    for l in &inst.decls {
        lines.push(format!("arg({}).", l));
    }
    for (a, b) in &inst.atts {
        lines.push(format!("att({},{}).", a, b));
    }
    let kd = rng.below(nd);
    let ka = nd + rng.below(inst.atts.len());
    let fresh = "undeclared_zz";
    match rng.below(14) {
        0 => {
            let (a, b) = inst.atts[ka - nd].clone();
            lines[ka] = if rng.chance(1, 2) { format!("att({},{}).", fresh, b) } else { format!("att({},{}).", a, fresh) };
            (lines, "undeclared_in_att".into(), "err")
        }
        1 => {
            // the declaration of an argument used by an attack is dropped
            let (a, _) = inst.atts[ka - nd].clone();
            lines.retain(|l| *l != format!("arg({}).", a));
            (lines, "dropped_declaration".into(), "err")
        }
        2 => {
            let pos = rng.range(nd + 1, lines.len());
            let l = if rng.chance(1, 2) { format!("arg({}).", inst.decls[kd]) } else { "arg(late).".to_string() };
            lines.insert(pos, l);
            (lines, "arg_after_att".into(), "err")
        }
        3 => {
            let bad = ["1a", "a.b", "a b", "a-b", "\u{e9}", "", " ", "a,b", "\u{663}a", "a\u{a0}b", "(a"];
            let b = bad[rng.below(bad.len())];
            lines[kd] = format!("arg({}).", b);
            (lines, format!("bad_name:{}", str_tok(b)), "err")
        }
        4 => {
            let (a, b) = inst.atts[ka - nd].clone();
            lines[ka] = match rng.below(4) {
                0 => format!("att({}).", a),
                1 => format!("att({},{},{}).", a, b, a),
                2 => format!("att({},).", a),
                _ => format!("att(,{}).", b),
            };
            (lines, "att_arity".into(), "err")
        }
        5 => {
            let l = lines[kd].clone();
            lines[kd] = match rng.below(5) {
                0 => l.replace('(', ""),
                1 => l.replace(')', ""),
                2 => l.replace('.', ""),
                3 => l.replace("arg", "arx"),
                _ => l.replace("arg", "ARG"),
            };
            (lines, "arg_syntax".into(), "err")
        }
        6 => {
            let l = lines[ka].clone();
            lines[ka] = match rng.below(5) {
                0 => l.replace('(', ""),
                1 => l.replace(')', ""),
                2 => l.replace('.', ""),
                3 => l.replace("att", "atk"),
                _ => l.replace(',', " "),
            };
            (lines, "att_syntax".into(), "err")
        }
        7 => {
            let junk = ["foo", "p af 3", "1 2", "arg(a).arg(b).", "% comment", "# comment", "arg(a). % c"];
            let pos = rng.below(lines.len() + 1);
            lines.insert(pos, junk[rng.below(junk.len())].to_string());
            (lines, "junk_line".into(), "err")
        }
        8 => {
            // D11: the terminator is an unescaped dot in the patterns; observation only
            let t = ["x", ")", ",", " ", "\u{e9}", "\t"];
            let l = lines[kd].clone();
            lines[kd] = format!("{}{}", &l[..l.len() - 1], t[rng.below(t.len())]);
            (lines, "odd_terminator".into(), "any")
        }
        9 => {
            let l = lines[ka].clone();
            lines.insert(ka, l);
            (lines, "dup_line".into(), "any")
        }
        10 => {
            lines.remove(ka);
            (lines, "drop_att_line".into(), "any")
        }
        11 => {
            let (a, b) = inst.atts[ka - nd].clone();
            lines[ka] = format!("att({},{}).", b, a);
            (lines, "swap_tokens".into(), "any")
        }
        12 => {
            lines.swap(kd, ka);
            // an att before its arg (or an arg after an att): always ill-formed
            (lines, "swap_arg_att_lines".into(), "err")
        }
        _ => {
            let l = lines[kd].clone();
            lines[kd] = format!("{}{}", l, l);
            (lines, "two_statements_one_line".into(), "err")
        }
    }
}

fn token_case(rng: &mut Rng, thorough: bool) -> Case {
    let mut f = Feats::plain();
    f.eol = if rng.chance(1, 4) { 1 } else { 0 };
    if rng.chance(1, 2) {
        let mut inst = gen_iccma_inst(rng, thorough);
        if inst.n > 50 {
            inst.n = 1 + inst.n % 50;
            inst.atts = inst.atts.iter().map(|(a, b)| (1 + a % inst.n, 1 + b % inst.n)).collect();
        }
        let (lines, class, expect) = corrupt_iccma(rng, &inst);
        Case {
            stream: "token",
            fmt: "iccma",
            bytes: join_lines(rng, &lines, &f),
            inst: None,
            feats: f.list(),
            class: Some(class),
            expect,
            args: vec![],
        }
    } else {
        let inst = gen_apx_inst(rng, false, false);
        let (lines, class, expect) = corrupt_apx(rng, &inst);
        Case {
            stream: "token",
            fmt: "apx",
            bytes: join_lines(rng, &lines, &f),
            inst: None,
            feats: f.list(),
            class: Some(class),
            expect,
            args: vec![],
        }
    }
}

fn byte_case(rng: &mut Rng, thorough: bool) -> Case {
    // base: an ASCII-only well-formed file
    let mut f = Feats::random(rng);
    f.uws = false;
    f.comments = false;
    f.plus = false;
    let (fmt, mut bytes): (&'static str, Vec<u8>) = if rng.chance(1, 2) {
        let mut inst = gen_iccma_inst(rng, thorough);
        if inst.n > 50 {
            inst.n = 1 + inst.n % 50;
            inst.atts = inst.atts.iter().map(|(a, b)| (1 + a % inst.n, 1 + b % inst.n)).collect();
        }
        let lines = iccma_lines(rng, &inst, &f);
        ("iccma", join_lines(rng, &lines, &f))
    } else {
        let inst = gen_apx_inst(rng, false, f.dups);
        let lines = apx_lines(rng, &inst, &f);
        ("apx", join_lines(rng, &lines, &f))
    };
    let (class, expect): (String, &'static str) = match rng.below(6) {
        0 | 1 => {
            // a lone byte 0x80..0xFF between ASCII bytes is never valid UTF-8
            let pos = rng.below(bytes.len() + 1);
            let b = 0x80 + rng.below(0x80) as u8;
            bytes.insert(pos, b);
            (format!("invalid_utf8:{:02x}", b), "err")
        }
        2 => {
            if !bytes.is_empty() {
                let pos = rng.below(bytes.len());
                bytes[pos] ^= 1 << rng.below(7);
            }
            ("flip_bit".into(), "any")
        }
        3 => {
            let k = rng.below(bytes.len() + 1);
            bytes.truncate(k);
            ("truncate".into(), "any")
        }
        4 => {
            let pos = rng.below(bytes.len() + 1);
            let ins: &[u8] = [&b"\n"[..], &b"\r"[..], &b"\r\n"[..], &b" "[..], &b"\0"[..], &b"#"[..], &b"."[..], &b")"[..], &b","[..], &"\u{a0}".as_bytes()[..], &"\u{661}".as_bytes()[..]][rng.below(11)];
            for (i, b) in ins.iter().enumerate() {
                bytes.insert(pos + i, *b);
            }
            ("insert_byte".into(), "any")
        }
        _ => {
            if !bytes.is_empty() {
                let pos = rng.below(bytes.len());
                bytes.remove(pos);
            }
            ("delete_byte".into(), "any")
        }
    };
    Case { stream: "byte", fmt, bytes, inst: None, feats: f.list(), class: Some(class), expect, args: vec![] }
}

const HAND: [(&str, &str, &str); 44] = [
    ("iccma", "", "err"),
    ("iccma", "\n", "err"),
    ("iccma", "#only a comment\n", "err"),
    ("iccma", "p af 0", "ok"),
    ("iccma", "p af 0\n", "ok"),
    ("iccma", "p af -0\n", "any"),
    ("iccma", "p af +2\n+1 +2\n", "ok"),
    ("iccma", "p af 2\n1 2\r", "any"),
    ("iccma", "p af 2\n1 2\n\r", "any"),
    ("iccma", "p af 2\r\n1 2\r\n\r\n", "ok"),
    ("iccma", "p af 2\n1 2\n\r\n#c\n\n", "ok"),
    ("iccma", "p af 2\n1 2\n\n1 2\n", "err"),
    ("iccma", "\np af 2\n", "err"),
    ("iccma", "p af 2\n1\u{a0}2\n", "any"),
    ("iccma", "p\u{2003}af\u{3000}2\n", "any"),
    ("iccma", "p af 2\n1 2\r\r\n", "any"),
    ("iccma", "p af 2\n#\u{e9}\n2 2\n", "ok"),
    ("iccma", "p af 2\n1 2 \n", "ok"),
    ("iccma", "p af 9223372036854775808\n", "err"),
    ("iccma", "p af 2\n9223372036854775807 1\n", "err"),
    ("iccma", "p af 2\n-9223372036854775808 1\n", "err"),
    ("iccma", "p af 2\n-9223372036854775809 1\n", "err"),
    ("iccma", "p af 2\n00000000000000000000000000001 2\n", "ok"),
    ("iccma", "p af 1\n1 1\n1 1\n", "ok"),
    ("iccma", "p af 2\n1 2\np af 2\n", "err"),
    ("iccma", "p af 3 \u{1680}\n", "any"),
    ("apx", "", "ok"),
    ("apx", "\n\n", "ok"),
    ("apx", "arg(a).", "ok"),
    ("apx", "arg(a).\r\narg(b).\r\natt(a,b).\r\n", "ok"),
    ("apx", "arg(a)x\n", "any"),
    ("apx", "arg(a))\n", "any"),
    ("apx", "arg(a)\r", "any"),
    ("apx", "arg(a)\r\n", "err"),
    ("apx", "arg(a).\natt(a,a))\n", "any"),
    ("apx", "arg(a).\natt(a),a).\n", "err"),
    ("apx", "arg(a).\natt(a,a,a).\n", "err"),
    ("apx", "att(a,a).\n", "err"),
    ("apx", "arg(a).\narg(a).\natt(a,a).\natt(a,a).\n", "ok"),
    ("apx", "arg(a\u{663}).\n", "ok"),
    ("apx", "arg(\u{663}a).\n", "err"),
    ("apx", "\u{a0}arg(\u{2003}a\u{3000}).\u{85}\n", "ok"),
    ("apx", "arg(a).\n \t \natt(a,a).\n", "ok"),
    ("apx", "arg(a). arg(b).\n", "err"),
];

fn hist_case_iccma(rng: &mut Rng, out: &mut Out) {
    // read_arg_from_str on a store with removed ids
    let usize_univ = rng.range(1, 6);
    let universe: Vec<usize> = (1..=usize_univ).collect();
    let mut init = Vec::new();
    for _ in 0..rng.below(usize_univ + 1) {
        init.push(*rng.pick(&universe));
    }
    out.case("readers/readarg/iccma");
    out.inp("hist iccma");
    out.inp(&format!("init {}", join(init.iter(), " ")));
    let mut af = AAFramework::new_with_argument_set(ArgumentSet::new_with_labels(&init));
    for _ in 0..rng.range(0, 12) {
        let op = crate::store::random_op(rng, &universe, &af);
        out.inp(&format!("op {}", op.to_string()));
        let _ = crate::gen::apply_op(&mut af, &op);
    }
    let removed = af.max_argument_id().map_or(0, |m| m + 1) != af.n_arguments();
    out.inp(&format!("removed {}", removed as u8));
    let mut args: Vec<String> = (0..=usize_univ + 1).map(|i| i.to_string()).collect();
    args.push("+1".into());
    args.push("x".into());
    for a in &args {
        out.inp(&format!("arg {}", hex(a.as_bytes())));
    }
    for a in &args {
        out.out(&arg_line_iccma(&af, a));
    }
    out.end();
}

fn apply_op_str(af: &mut AAFramework<String>, labels: &[String], op: &Op) -> Result<(), ()> {
    let l = |i: &usize| labels[*i - 1].clone();
    match op {
        Op::NewArg(a) => {
            af.new_argument(l(a));
            Ok(())
        }
        Op::RemArg(a) => af.remove_argument(&l(a)).map_err(|_| ()),
        Op::NewAtt(a, b) => af.new_attack(&l(a), &l(b)).map_err(|_| ()),
        Op::RemAtt(a, b) => af.remove_attack(&l(a), &l(b)).map_err(|_| ()),
    }
}

fn op_str(labels: &[String], op: &Op) -> String {
    let l = |i: &usize| str_tok(&labels[*i - 1]);
    match op {
        Op::NewArg(a) => format!("+a {}", l(a)),
        Op::RemArg(a) => format!("-a {}", l(a)),
        Op::NewAtt(a, b) => format!("+t {} {}", l(a), l(b)),
        Op::RemAtt(a, b) => format!("-t {} {}", l(a), l(b)),
    }
}

/// A usize-indexed shadow framework drives `store::random_op` so that the op mix is the one of C12.
fn gen_history(rng: &mut Rng, univ: usize, max_len: usize) -> (Vec<usize>, Vec<Op>) {
    let universe: Vec<usize> = (1..=univ).collect();
    let mut init = Vec::new();
    for _ in 0..rng.below(univ + 1) {
        init.push(*rng.pick(&universe));
    }
    let mut af = AAFramework::new_with_argument_set(ArgumentSet::new_with_labels(&init));
    let mut ops = Vec::new();
    for _ in 0..rng.range(0, max_len) {
        let op = crate::store::random_op(rng, &universe, &af);
        let _ = crate::gen::apply_op(&mut af, &op);
        ops.push(op);
    }
    (init, ops)
}

fn hist_case_apx(rng: &mut Rng, out: &mut Out) {
    let univ = rng.range(1, 5);
    let mut labels: Vec<String> = Vec::new();
    while labels.len() < univ {
        let l = gen_ident_p(rng, 1, 4);
        if !labels.contains(&l) {
            labels.push(l);
        }
    }
    let (init, ops) = gen_history(rng, univ, 10);
    out.case("readers/readarg/apx");
    out.inp("hist apx");
    let init_s: Vec<String> = init.iter().map(|i| labels[*i - 1].clone()).collect();
    out.inp(&format!("init {}", join(init_s.iter().map(|l| str_tok(l)), " ")));
    let mut af = AAFramework::new_with_argument_set(ArgumentSet::new_with_labels(&init_s));
    for op in &ops {
        out.inp(&format!("op {}", op_str(&labels, op)));
        let _ = apply_op_str(&mut af, &labels, op);
    }
    let mut args: Vec<String> = labels.clone();
    args.push("".into());
    args.push(format!("{} ", labels[0]));
    args.push("nope".into());
    for a in &args {
        out.inp(&format!("arg {}", hex(a.as_bytes())));
    }
    for a in &args {
        out.out(&arg_line_apx(&af, a));
    }
    out.end();
}

pub fn run_readers(rng: &mut Rng, count: usize, thorough: bool, shard: &str, out: &mut Out) {
    let mut skipped = 0usize;
    // the fixed edge cases are run by shard 0 only
    if shard.starts_with("0/") {
        for (fmt, text, expect) in HAND.iter() {
            let fmt: &'static str = if *fmt == "iccma" { "iccma" } else { "apx" };
            let args = if fmt == "iccma" { vec!["1".to_string(), "2".to_string(), "3".to_string()] } else { vec!["a".to_string(), "b".to_string()] };
            let c = Case {
                stream: "hand",
                fmt,
                bytes: text.as_bytes().to_vec(),
                inst: None,
                feats: vec![],
                class: None,
                expect: match *expect {
                    "ok" => "ok",
                    "err" => "err",
                    _ => "any",
                },
                args,
            };
            emit(out, &c, &mut skipped);
        }
        // a few LARGE files (size-dependent slips: buffer boundaries of the line reader, index width, many lines)
        let mut big: Vec<(&'static str, String, &'static str, Vec<String>)> = Vec::new();
        {
            let n = 1800 + rng.below(400);
            let mut t = format!("p af {}\n", n);
            for i in 0..(2 * n) { t.push_str(&format!("{} {}\n", 1 + (i * 7) % n, 1 + (i * 13 + 5) % n)); }
            big.push(("iccma", t, "ok", vec!["1".to_string(), n.to_string(), (n + 1).to_string()]));
            // a comment line and a padded attack line longer than 8 KiB, CRLF ends
            let mut t = String::from("p af 3\r\n");
            t.push_str(&format!("# {}\r\n", "x".repeat(9000 + rng.below(500))));
            t.push_str(&format!("1 2{}\r\n", " ".repeat(8300)));
            t.push_str(&format!("{}2 3\r\n", "\t".repeat(8200)));
            big.push(("iccma", t, "ok", vec!["3".to_string()]));
            // an index with many digits (leading zeros) and one beyond the integer range
            big.push(("iccma", format!("p af 2\n{}1 2\n", "0".repeat(300)), "ok", vec!["2".to_string()]));
            big.push(("iccma", format!("p af 2\n1 {}\n", "9".repeat(40)), "err", vec!["1".to_string()]));
            let m = 900 + rng.below(300);
            let mut t = String::new();
            for i in 0..m { t.push_str(&format!("arg(a{}).\n", i)); }
            for i in 0..(2 * m) { t.push_str(&format!("att(a{},a{}).\n", (i * 5) % m, (i * 11 + 3) % m)); }
            big.push(("apx", t, "ok", vec!["a0".to_string(), format!("a{}", m - 1), format!("a{}", m)]));
            let mut t = String::from("arg(a).\n");
            t.push_str(&format!("arg({}b{}).\n", " ".repeat(8200), " ".repeat(100)));
            t.push_str(&format!("att(a,{}b).\n", " ".repeat(8300)));
            big.push(("apx", t, "ok", vec!["b".to_string()]));
        }
        for (fmt, text, expect, args) in big {
            let c = Case { stream: "hand", fmt, bytes: text.into_bytes(), inst: None, feats: vec!["big".to_string()], class: Some("big".to_string()), expect, args };
            emit(out, &c, &mut skipped);
        }
    }
    for i in 0..count {
        match i % 20 {
            0..=7 => {
                let c = grammar_case(rng, thorough);
                emit(out, &c, &mut skipped)
            }
            8..=13 => {
                let c = token_case(rng, thorough);
                emit(out, &c, &mut skipped)
            }
            14..=17 => {
                let c = byte_case(rng, thorough);
                emit(out, &c, &mut skipped)
            }
            18 => hist_case_iccma(rng, out),
            _ => hist_case_apx(rng, out),
        }
    }
    out.case("readers/meta");
    out.inp(&format!("skipped_declared_too_big {}", skipped));
    out.end();
}

// ------------------------------------------------------------------ writers

fn reread_line(bytes: &[u8]) -> String {
    res_line("reread", &run_apx(bytes), &string_tok)
}

fn fwobs<T: LabelType>(af: &AAFramework<T>, lab: &dyn Fn(&T) -> String) -> String {
    format!(
        "fwobs {} ; {}",
        join(af.argument_set().iter().map(|a| lab(a.label())), " "),
        join(
            af.iter_attacks()
                .map(|a| format!("{}>{}", lab(a.attacker().label()), lab(a.attacked().label()))),
            " "
        )
    )
}

const ODD_LABELS: [&str; 10] = ["1a", "a b", "", "\u{e9}", "a,b", "a)", "(", "a.", "\u{663}", " a"];

fn writer_fw_str(rng: &mut Rng, thorough: bool, out: &mut Out) {
    let univ = rng.range(1, 6);
    let odd = rng.chance(1, 6);
    let mut labels: Vec<String> = Vec::new();
    while labels.len() < univ {
        let l = if odd && rng.chance(1, 3) { ODD_LABELS[rng.below(ODD_LABELS.len())].to_string() } else { gen_ident_p(rng, 1, 4) };
        if !labels.contains(&l) {
            labels.push(l);
        }
    }
    let (init, ops) = gen_history(rng, univ, if thorough { 40 } else { 24 });
    out.case("writers/fw/str");
    let init_s: Vec<String> = init.iter().map(|i| labels[*i - 1].clone()).collect();
    out.inp(&format!("init {}", join(init_s.iter().map(|l| str_tok(l)), " ")));
    let mut af = AAFramework::new_with_argument_set(ArgumentSet::new_with_labels(&init_s));
    let mut removals = 0;
    for op in &ops {
        out.inp(&format!("op {}", op_str(&labels, op)));
        if apply_op_str(&mut af, &labels, op).is_ok() && matches!(op, Op::RemArg(_) | Op::RemAtt(_, _)) {
            removals += 1;
        }
    }
    out.inp(&format!("removals {}", removals));
    out.out(&fwobs(&af, &string_tok));
    let mut buf: Vec<u8> = Vec::new();
    match guarded(|| AspartixWriter::default().write_framework(&af, &mut buf).is_ok()) {
        Ok(true) => {
            out.out(&format!("bytes {}", hex(&buf)));
            out.out(&reread_line(&buf));
        }
        Ok(false) => out.out("bytes ioerr"),
        Err(_) => out.out("bytes panic"),
    }
    out.end();
}

fn writer_fw_usize(rng: &mut Rng, out: &mut Out) {
    // rarely a LARGE framework: medium (hundreds of arguments, a long history: output above 8 KiB, sparse ids; still
    // compared with the model) or huge (thousands of arguments: output above 64 KiB; the model side is too slow for
    // it and skips the case - `IN big 1` - so that only the exact-bytes and read-back oracles judge it)
    let size_class = rng.below(120);
    let huge = size_class == 0;
    let (init, ops) = if huge {
        let n = rng.range(5000, 8000);
        let init: Vec<usize> = (1..=n).collect();
        let mut ops: Vec<Op> = Vec::new();
        for i in 0..n { ops.push(Op::NewAtt(1 + i, 1 + (i * 7 + 3) % n)); }
        for i in 0..40 { ops.push(Op::RemArg(1 + (i * 131) % n)); }
        for i in 0..40 { ops.push(Op::NewArg(n + 1 + i)); ops.push(Op::NewAtt(n + 1 + i, 1 + (i * 17 + 2) % n)); }
        (init, ops)
    } else if size_class == 1 {
        let u = rng.range(120, 250);
        let st = rng.range(700, 1300);
        gen_history(rng, u, st)
    } else {
        let u = rng.range(1, 6);
        gen_history(rng, u, 20)
    };
    // spread the labels so that the decimal writer sees several digit counts
    let scale = if size_class <= 1 { 1 } else { [1usize, 7, 100, 12345][rng.below(4)] };
    let m = |i: &usize| if scale == 1 { *i } else { *i * scale - 1 };
    let init_m: Vec<usize> = init.iter().map(m).collect();
    out.case("writers/fw/usize");
    if huge { out.inp("big 1"); }
    out.inp(&format!("init {}", join(init_m.iter(), " ")));
    let mut af = AAFramework::new_with_argument_set(ArgumentSet::new_with_labels(&init_m));
    for op in &ops {
        let op2 = match op {
            Op::NewArg(a) => Op::NewArg(m(a)),
            Op::RemArg(a) => Op::RemArg(m(a)),
            Op::NewAtt(a, b) => Op::NewAtt(m(a), m(b)),
            Op::RemAtt(a, b) => Op::RemAtt(m(a), m(b)),
        };
        out.inp(&format!("op {}", op2.to_string()));
        let _ = crate::gen::apply_op(&mut af, &op2);
    }
    out.out(&fwobs(&af, &usize_tok));
    let mut buf: Vec<u8> = Vec::new();
    match guarded(|| AspartixWriter::default().write_framework(&af, &mut buf).is_ok()) {
        Ok(true) => {
            out.out(&format!("bytes {}", hex(&buf)));
            out.out(&reread_line(&buf));
        }
        Ok(false) => out.out("bytes ioerr"),
        Err(_) => out.out("bytes panic"),
    }
    out.end();
}

fn writer_ext_w(rng: &mut Rng, out: &mut Out) {
    let k = match rng.below(6) {
        0 => 0,
        1 => 1,
        _ => rng.range(2, 9),
    };
    let special = [0usize, 1, 9, 10, 99, 100, 4294967295, 4294967296, usize::MAX, usize::MAX - 1, 1000000007];
    let mut labels: Vec<usize> = Vec::new();
    // rarely: a long extension, so that the written line crosses the usual buffer sizes (4 KiB, 8 KiB, 64 KiB)
    if rng.chance(1, 120) {
        let big = [900usize, 1900, 2600, 14000][rng.below(4)] + rng.below(60);
        labels = (1..=big).collect();
        rng.shuffle(&mut labels);
    }
    let k = if labels.is_empty() { k } else { labels.len() };
    while labels.len() < k {
        let l = match rng.below(3) {
            0 => special[rng.below(special.len())],
            1 => rng.below(30),
            _ => (rng.next() >> rng.below(64)) as usize,
        };
        if !labels.contains(&l) {
            labels.push(l);
        }
    }
    // an extension is a slice of references: take a shuffled sub-list of a (larger) argument set
    let mut all = labels.clone();
    for _ in 0..rng.below(3) {
        let l = 500 + rng.below(100);
        if !all.contains(&l) {
            all.push(l);
        }
    }
    rng.shuffle(&mut all);
    let set = ArgumentSet::new_with_labels(&all);
    let ext: Vec<&Argument<usize>> = labels.iter().map(|l| set.get_argument(l).unwrap()).collect();
    out.case("writers/ext/w");
    out.inp(&format!("ext {}", join(labels.iter(), " ")));
    let mut buf: Vec<u8> = Vec::new();
    match guarded(|| Iccma23Writer::default().write_single_extension(&mut buf, &ext).is_ok()) {
        Ok(true) => out.out(&format!("bytes {}", hex(&buf))),
        Ok(false) => out.out("bytes ioerr"),
        Err(_) => out.out("bytes panic"),
    }
    out.end();
}

fn writer_ext_bracket(rng: &mut Rng, out: &mut Out) {
    let k = match rng.below(6) {
        0 => 0,
        1 => 1,
        _ => rng.range(2, 8),
    };
    let mut labels: Vec<String> = Vec::new();
    // rarely: a long extension (see writer_ext_w)
    if rng.chance(1, 120) {
        let big = [900usize, 1900, 2600, 14000][rng.below(4)] + rng.below(60);
        labels = (1..=big).map(|i| format!("a{}", i)).collect();
        rng.shuffle(&mut labels);
    }
    let k = if labels.is_empty() { k } else { labels.len() };
    while labels.len() < k {
        let l = gen_ident_p(rng, 1, 3);
        if !labels.contains(&l) {
            labels.push(l);
        }
    }
    let mut all = labels.clone();
    all.push("zz_other".to_string());
    rng.shuffle(&mut all);
    let set = ArgumentSet::new_with_labels(&all);
    let ext: Vec<&Argument<String>> = labels.iter().map(|l| set.get_argument(l).unwrap()).collect();
    out.case("writers/ext/bracket");
    out.inp(&format!("ext {}", join(labels.iter().map(|l| str_tok(l)), " ")));
    let mut buf: Vec<u8> = Vec::new();
    match guarded(|| AspartixWriter::default().write_single_extension(&mut buf, &ext).is_ok()) {
        Ok(true) => out.out(&format!("bytes {}", hex(&buf))),
        Ok(false) => out.out("bytes ioerr"),
        Err(_) => out.out("bytes panic"),
    }
    out.end();
}

fn writer_status(rng: &mut Rng, out: &mut Out) {
    let which = ["yes", "no", "noext"][rng.below(3)];
    let iccma = rng.chance(1, 2);
    out.case("writers/status");
    out.inp(&format!("status {}", which));
    out.inp(&format!("writer {}", if iccma { "iccma" } else { "apx" }));
    let mut buf: Vec<u8> = Vec::new();
    let r = guarded(|| {
        if iccma {
            let w = Iccma23Writer::default();
            match which {
                "yes" => w.write_acceptance_status(&mut buf, true).is_ok(),
                "no" => w.write_acceptance_status(&mut buf, false).is_ok(),
                _ => w.write_no_extension(&mut buf).is_ok(),
            }
        } else {
            let w = AspartixWriter::default();
            match which {
                "yes" => w.write_acceptance_status(&mut buf, true).is_ok(),
                "no" => w.write_acceptance_status(&mut buf, false).is_ok(),
                _ => w.write_no_extension(&mut buf).is_ok(),
            }
        }
    });
    match r {
        Ok(true) => out.out(&format!("bytes {}", hex(&buf))),
        Ok(false) => out.out("bytes ioerr"),
        Err(_) => out.out("bytes panic"),
    }
    out.end();
}

pub fn run_writers(rng: &mut Rng, count: usize, thorough: bool, out: &mut Out) {
    for i in 0..count {
        match i % 10 {
            0..=3 => writer_fw_str(rng, thorough, out),
            4 => writer_fw_usize(rng, out),
            5..=6 => writer_ext_w(rng, out),
            7..=8 => writer_ext_bracket(rng, out),
            _ => writer_status(rng, out),
        }
    }
}
