//! Mode `components` (C04, label route): stores built by update histories (or by the ICCMA reader,
//! the public path to `new_attack_by_ids`, for duplicated attack lines); the connected-component
//! computer of /repo is run on them and everything the solvers do with LABELS is printed:
//! the component frameworks (argument list and attack list, in iteration order), the global -> local
//! translation `cc_af.argument_set().get_argument(a.label())` of EVERY argument of the store, and the
//! local -> global translation `af.argument_set().get_argument(cc_arg.label())` of every component
//! argument; for `iter_connected_components` and for `merged_connected_components_of(list)` followed
//! by `next_connected_component()` until `None`.
//!
//! `ConnectedComponentsComputer` is crate-private in a normal build; /repo exports it as
//! `crustabri::utils::verif_hooks::ConnectedComponentsComputer` under `--cfg crustabri_verif`
//! (the harness is always built with that flag: bin/setup, checks/lib.py:build_harness).
use crate::common::*;
use crate::gen::*;
use crate::store::random_op;
use crustabri::aa::{AAFramework, Argument, ArgumentSet};
use crustabri::utils::verif_hooks::ConnectedComponentsComputer;
use std::collections::VecDeque;

type MAf = AAFramework<usize>;

fn args_line(af: &MAf) -> String {
    join(af.argument_set().iter().map(|a| format!("{}:{}", a.id(), a.label())), " ")
}
fn atts_line(af: &MAf) -> String {
    join(af.iter_attacks().map(|a| format!("{}>{}", a.attacker().id(), a.attacked().id())), " ")
}

/// The three kinds of lines for one component framework.
fn describe(prefix: &str, k: usize, af: &MAf, cc_af: &MAf, out: &mut Vec<String>) {
    out.push(format!("{}cc {} args {} ; atts {}", prefix, k, args_line(cc_af), atts_line(cc_af)));
    out.push(format!(
        "{}local {} {}",
        prefix,
        k,
        join(
            af.argument_set().iter().map(|a| match cc_af.argument_set().get_argument(a.label()) {
                Ok(x) => format!("{}={}", a.id(), x.id()),
                Err(_) => format!("{}=-", a.id()),
            }),
            " "
        )
    ));
    out.push(format!(
        "{}global {} {}",
        prefix,
        k,
        join(
            cc_af.argument_set().iter().map(|c| match af.argument_set().get_argument(c.label()) {
                Ok(x) => format!("{}={}:{}", c.id(), x.id(), x.label()),
                Err(_) => format!("{}=-", c.id()),
            }),
            " "
        )
    ));
}

/// iter_connected_components: every `next()` is guarded.
fn run_iter(af: &MAf, out: &mut Out) {
    let mut it = match guarded(|| ConnectedComponentsComputer::iter_connected_components(af)) {
        Ok(it) => it,
        Err(_) => {
            out.out("cc 0 panic");
            return;
        }
    };
    let mut k = 0;
    loop {
        match guarded(|| it.next()) {
            Err(_) => {
                out.out(&format!("cc {} panic", k));
                return;
            }
            Ok(None) => break,
            Ok(Some(cc_af)) => {
                let mut ls = Vec::new();
                describe("", k, af, &cc_af, &mut ls);
                for l in ls {
                    out.out(&l);
                }
                k += 1;
            }
        }
    }
    out.out(&format!("end {}", k));
}

/// merged_connected_components_of(list), then next_connected_component() until None.
fn run_merged(j: usize, af: &MAf, ids: &[usize], out: &mut Out) {
    let p = format!("m{} ", j);
    let args: Vec<&Argument<usize>> =
        ids.iter().map(|i| af.argument_set().get_argument_by_id(*i)).collect();
    let mut computer = match guarded(|| ConnectedComponentsComputer::new(af)) {
        Ok(c) => c,
        Err(_) => {
            out.out(&format!("{}cc 0 panic", p));
            return;
        }
    };
    let first = match guarded(|| computer.merged_connected_components_of(&args)) {
        Ok(f) => f,
        Err(_) => {
            out.out(&format!("{}cc 0 panic", p));
            return;
        }
    };
    let mut ls = Vec::new();
    describe(&p, 0, af, &first, &mut ls);
    for l in ls.drain(..) {
        out.out(&l);
    }
    let mut k = 1;
    loop {
        match guarded(|| computer.next_connected_component()) {
            Err(_) => {
                out.out(&format!("{}cc {} panic", p, k));
                return;
            }
            Ok(None) => break,
            Ok(Some(cc_af)) => {
                describe(&p, k, af, &cc_af, &mut ls);
                for l in ls.drain(..) {
                    out.out(&l);
                }
                k += 1;
            }
        }
    }
    out.out(&format!("{}end {}", p, k));
}

/// A planned history over the labels 1..=n: several disjoint blocks (chain, cycle, star, isolated,
/// self-attack), duplicate insertions, then removals of arguments (splitting blocks, leaving sparse
/// ids) and re-insertion of removed labels (fresh ids at the end).
fn planned_history(rng: &mut Rng, n: usize, init: &[usize]) -> VecDeque<Op> {
    let mut ops = VecDeque::new();
    let mut labs: Vec<usize> = (1..=n).collect();
    rng.shuffle(&mut labs);
    for l in labs.iter() {
        if !init.contains(l) || rng.chance(1, 8) {
            ops.push_back(Op::NewArg(*l)); // sometimes redundant
        }
    }
    // blocks
    let mut i = 0;
    let mut pairs: Vec<(usize, usize)> = Vec::new();
    while i < labs.len() {
        let sz = rng.range(1, 4).min(labs.len() - i);
        let b = &labs[i..i + sz];
        match rng.below(5) {
            0 => {
                for w in b.windows(2) {
                    pairs.push((w[0], w[1]));
                }
            }
            1 => {
                for w in b.windows(2) {
                    pairs.push((w[0], w[1]));
                }
                pairs.push((b[sz - 1], b[0])); // cycle (self-attack when sz = 1)
            }
            2 => {
                for x in b.iter().skip(1) {
                    if rng.chance(1, 2) {
                        pairs.push((b[0], *x))
                    } else {
                        pairs.push((*x, b[0]))
                    }
                }
            }
            3 => {
                for x in b.iter() {
                    for y in b.iter() {
                        if rng.chance(1, 2) {
                            pairs.push((*x, *y))
                        }
                    }
                }
            }
            _ => {} // isolated arguments
        }
        i += sz;
    }
    rng.shuffle(&mut pairs);
    for (a, b) in pairs.iter() {
        ops.push_back(Op::NewAtt(*a, *b));
        if rng.chance(1, 6) {
            ops.push_back(Op::NewAtt(*a, *b)); // duplicate insertion
        }
    }
    // removals and re-insertions
    let n_rem = rng.below(n.min(4) + 1);
    let mut removed = Vec::new();
    for _ in 0..n_rem {
        let l = *rng.pick(&labs);
        ops.push_back(Op::RemArg(l));
        removed.push(l);
    }
    for (a, b) in pairs.iter() {
        if rng.chance(1, 8) {
            ops.push_back(Op::RemAtt(*a, *b));
        }
    }
    for l in removed.iter() {
        if rng.chance(1, 2) {
            ops.push_back(Op::NewArg(*l));
            if rng.chance(2, 3) {
                let o = *rng.pick(&labs);
                if rng.chance(1, 2) {
                    ops.push_back(Op::NewAtt(*l, o))
                } else {
                    ops.push_back(Op::NewAtt(o, *l))
                }
            }
        }
    }
    ops
}

pub fn run(rng: &mut Rng, count: usize, thorough: bool, out: &mut Out) {
    for case_no in 0..count {
        // scenario: 0 = the framework that never had an argument; 1 = every argument removed again;
        // 2 = planned history followed by random operations; 3 = random operations only;
        // 4 = ICCMA text with duplicated attack lines (new_attack_by_ids), then random operations
        let scenario = if case_no == 0 {
            0
        } else if case_no == 1 {
            1
        } else {
            match rng.below(40) {
                0 => 0,
                1 => 1,
                2..=23 => 2,
                24..=31 => 4,
                _ => 3,
            }
        };
        let n_univ = if scenario == 0 { 1 } else { rng.range(1, if thorough { 12 } else { 9 }) };
        let universe: Vec<usize> = (1..=n_univ).collect();
        let mut init: Vec<usize> = Vec::new();
        if scenario != 0 && scenario != 4 {
            let n_init = rng.below(n_univ + 1);
            for _ in 0..n_init {
                init.push(*rng.pick(&universe)); // repetitions on purpose
            }
        }
        let mut planned: VecDeque<Op> = match scenario {
            1 => {
                let mut v: VecDeque<Op> = universe.iter().map(|l| Op::NewArg(*l)).collect();
                if n_univ >= 2 {
                    v.push_back(Op::NewAtt(1, 2));
                }
                let mut ls = universe.clone();
                rng.shuffle(&mut ls);
                for l in ls {
                    v.push_back(Op::RemArg(l));
                }
                v
            }
            2 => planned_history(rng, n_univ, &init),
            _ => VecDeque::new(),
        };
        let extra = match scenario {
            0 | 1 => 0,
            2 => rng.below(if thorough { 16 } else { 8 }),
            4 => rng.below(if thorough { 12 } else { 6 }),
            _ => rng.range(1, if thorough { 60 } else { 30 }),
        };
        let len = planned.len() + extra;
        out.case(&format!("components/s{}", scenario));
        let mut af: MAf = if scenario == 4 {
            // labels 1..=n (ids 0..n-1); a sparse attack list in which lines are repeated
            let n = n_univ;
            let mut atts: Vec<(usize, usize)> = Vec::new();
            for _ in 0..rng.below(2 * n + 1) {
                let a = rng.below(n);
                let b = if rng.chance(1, 6) { a } else { rng.below(n) };
                atts.push((a, b));
                if rng.chance(1, 3) {
                    atts.push((a, b));
                }
            }
            rng.shuffle(&mut atts);
            let b = Build::Iccma(n, atts);
            write_build(out, &b);
            build_af(&b)
        } else {
            out.inp(&format!("init {}", join(init.iter(), " ")));
            AAFramework::new_with_argument_set(ArgumentSet::new_with_labels(&init))
        };
        out.inp(&format!("universe {}", join(universe.iter(), " ")));
        let mut broken = false;
        for _ in 0..len {
            let op = match planned.pop_front() {
                Some(o) => o,
                None => random_op(rng, &universe, &af),
            };
            out.inp(&format!("op {}", op.to_string()));
            if guarded(|| apply_op(&mut af, &op)).is_err() {
                out.out("op panic");
                broken = true;
                break;
            }
        }
        if broken {
            out.end();
            continue;
        }
        // the lists for merged_connected_components_of (chosen before any output, from the ids)
        let live: Vec<usize> = af.argument_set().iter().map(|a| a.id()).collect();
        let mut lists: Vec<Vec<usize>> = Vec::new();
        if live.is_empty() {
            lists.push(Vec::new()); // the only possible list (finding F-cc-1 when there is no slot)
        } else {
            for _ in 0..rng.range(1, 3) {
                let n = rng.range(1, 3.min(live.len() + 1));
                let mut l: Vec<usize> = (0..n).map(|_| *rng.pick(&live)).collect(); // repetitions possible
                if rng.chance(1, 20) {
                    l.clear(); // the empty list on a non-empty framework
                }
                lists.push(l);
            }
        }
        for l in lists.iter() {
            out.inp(&format!("merged {}", join(l.iter(), " ")));
        }
        out.out(&format!(
            "maxid {}",
            match af.max_argument_id() {
                Some(m) => m.to_string(),
                None => "-".to_string(),
            }
        ));
        out.out(&format!("args {}", args_line(&af)));
        out.out(&format!("atts {}", atts_line(&af)));
        run_iter(&af, out);
        for (j, l) in lists.iter().enumerate() {
            run_merged(j, &af, l, out);
        }
        out.end();
    }
}
