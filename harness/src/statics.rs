//! Mode `static`: the static solvers on generated frameworks, every SAT interaction recorded.
use crate::common::*;
use crate::gen::*;
use crustabri::aa::{AAFramework, Argument};
use crustabri::encodings::{
    aux_var_constraints_encoder, exp_constraints_encoder, ConstraintsEncoder,
    HybridCompleteConstraintsEncoder,
};
use crustabri::solvers::*;
use std::rc::Rc;

pub const ENCS_CO: [&str; 3] = ["aux_co", "exp_co", "hyb_co"];
pub const ENCS_CF: [&str; 2] = ["aux_cf", "exp_cf"];

pub fn make_encoder(name: &str) -> Box<dyn ConstraintsEncoder<usize>> {
    match name {
        "aux_cf" => Box::new(aux_var_constraints_encoder::new_for_conflict_freeness()),
        "aux_adm" => Box::new(aux_var_constraints_encoder::new_for_admissibility()),
        "aux_co" => Box::new(aux_var_constraints_encoder::new_for_complete_semantics()),
        "exp_cf" => Box::new(exp_constraints_encoder::new_for_conflict_freeness()),
        "exp_co" => Box::new(exp_constraints_encoder::new_for_complete_semantics()),
        "hyb_co" => Box::<HybridCompleteConstraintsEncoder>::default(),
        _ => panic!("unknown encoder"),
    }
}

pub fn encoders_for(sem: &str, q: &str) -> Vec<&'static str> {
    match sem {
        "GR" => vec!["-"],
        "ST" => vec!["st"],
        "STG" => ENCS_CF.to_vec(),
        "PR" if q == "SE" => vec!["aux_adm", "aux_co", "exp_co", "hyb_co"],
        _ => ENCS_CO.to_vec(),
    }
}

pub fn ext_to_string(e: &[&Argument<usize>]) -> String {
    join(e.iter().map(|a| format!("{}:{}", a.id(), a.label())), " ")
}

pub enum Outcome {
    Ext(Option<String>),
    Acc(bool, Option<String>),
}

impl Outcome {
    pub fn to_line(&self) -> String {
        match self {
            Outcome::Ext(Some(s)) => format!("ext {}", s),
            Outcome::Ext(None) => "noext".to_string(),
            Outcome::Acc(b, Some(s)) => format!("acc {} cert {}", if *b { "YES" } else { "NO" }, s),
            Outcome::Acc(b, None) => format!("acc {} nocert", if *b { "YES" } else { "NO" }),
        }
    }
}

/// One query put to a solver object: (query kind, with certificate, argument labels).
pub type Q<'a> = (&'a str, bool, Vec<usize>);

/// Runs one query through the library API.  `sem` names the solver type.
pub fn run_query(
    af: &AAFramework<usize>,
    sem: &str,
    q: &str,
    cert: bool,
    enc: &str,
    args: &[usize],
    factory: Box<dyn Fn() -> Box<dyn crustabri::sat::SatSolver>>,
) -> Outcome {
    run_queries(af, sem, enc, &[(q, cert, args.to_vec())], factory).pop().unwrap()
}

/// Puts a SEQUENCE of queries to ONE solver object (C06: order / repetition independence).
pub fn run_queries(
    af: &AAFramework<usize>,
    sem: &str,
    enc: &str,
    queries: &[Q],
    factory: Box<dyn Fn() -> Box<dyn crustabri::sat::SatSolver>>,
) -> Vec<Outcome> {
    fn se(s: &mut dyn SingleExtensionComputer<usize>) -> Outcome {
        Outcome::Ext(s.compute_one_extension().map(|e| ext_to_string(&e)))
    }
    fn dc(s: &mut dyn CredulousAcceptanceComputer<usize>, cert: bool, a: &[&usize]) -> Outcome {
        if cert {
            let (b, c) = s.are_credulously_accepted_with_certificate(a);
            Outcome::Acc(b, c.map(|e| ext_to_string(&e)))
        } else {
            Outcome::Acc(s.are_credulously_accepted(a), None)
        }
    }
    fn ds(s: &mut dyn SkepticalAcceptanceComputer<usize>, cert: bool, a: &[&usize]) -> Outcome {
        if cert {
            let (b, c) = s.are_skeptically_accepted_with_certificate(a);
            Outcome::Acc(b, c.map(|e| ext_to_string(&e)))
        } else {
            Outcome::Acc(s.are_skeptically_accepted(a), None)
        }
    }
    macro_rules! all3 {
        ($s:expr) => {{
            let mut s = $s;
            queries
                .iter()
                .map(|(q, cert, args)| {
                    let refs: Vec<&usize> = args.iter().collect();
                    match *q {
                        "SE" => se(&mut s),
                        "DC" => dc(&mut s, *cert, &refs),
                        _ => ds(&mut s, *cert, &refs),
                    }
                })
                .collect()
        }};
    }
    match sem {
        "GR" => all3!(GroundedSemanticsSolver::new(af)),
        "CO" => {
            let mut s = CompleteSemanticsSolver::new_with_sat_solver_factory_and_constraints_encoder(
                af,
                factory,
                make_encoder(enc),
            );
            queries
                .iter()
                .map(|(q, cert, args)| {
                    let refs: Vec<&usize> = args.iter().collect();
                    match *q {
                        "DC" => dc(&mut s, *cert, &refs),
                        _ => panic!("no such query on the complete solver"),
                    }
                })
                .collect()
        }
        "ST" => all3!(StableSemanticsSolver::new_with_sat_solver_factory(af, factory)),
        "PR" => {
            let mut s = PreferredSemanticsSolver::new_with_sat_solver_factory_and_constraints_encoder(
                af,
                factory,
                make_encoder(enc),
            );
            queries
                .iter()
                .map(|(q, cert, args)| {
                    let refs: Vec<&usize> = args.iter().collect();
                    match *q {
                        "SE" => se(&mut s),
                        "DS" => ds(&mut s, *cert, &refs),
                        _ => panic!("no such query on the preferred solver"),
                    }
                })
                .collect()
        }
        "SST" => all3!(SemiStableSemanticsSolver::new_with_sat_solver_factory_and_constraints_encoder(
            af,
            factory,
            make_encoder(enc)
        )),
        "STG" => all3!(StageSemanticsSolver::new_with_sat_solver_factory_and_constraints_encoder(
            af,
            factory,
            make_encoder(enc)
        )),
        "ID" => all3!(IdealSemanticsSolver::new_with_sat_solver_factory_and_constraints_encoder(
            af,
            factory,
            make_encoder(enc)
        )),
        _ => panic!("unknown semantics"),
    }
}

pub const PROBLEMS: [(&str, &str); 18] = [
    ("GR", "SE"), ("GR", "DC"), ("GR", "DS"),
    ("CO", "DC"),
    ("ST", "SE"), ("ST", "DC"), ("ST", "DS"),
    ("PR", "SE"), ("PR", "DS"),
    ("SST", "SE"), ("SST", "DC"), ("SST", "DS"),
    ("STG", "SE"), ("STG", "DC"), ("STG", "DS"),
    ("ID", "SE"), ("ID", "DC"), ("ID", "DS"),
];

/// Connected components of the framework, as lists of labels.
pub fn components(af: &AAFramework<usize>) -> Vec<Vec<usize>> {
    let live: Vec<usize> = af.argument_set().iter().map(|a| *a.label()).collect();
    let mut comp: std::collections::HashMap<usize, usize> = live.iter().map(|l| (*l, *l)).collect();
    fn find(c: &mut std::collections::HashMap<usize, usize>, x: usize) -> usize {
        let p = c[&x];
        if p == x { x } else { let r = find(c, p); c.insert(x, r); r }
    }
    let atts: Vec<(usize, usize)> = af.iter_attacks().map(|a| (*a.attacker().label(), *a.attacked().label())).collect();
    for (a, b) in atts {
        let (ra, rb) = (find(&mut comp, a), find(&mut comp, b));
        if ra != rb { comp.insert(ra, rb); }
    }
    let mut groups: std::collections::BTreeMap<usize, Vec<usize>> = Default::default();
    for l in live { let r = find(&mut comp, l); groups.entry(r).or_default().push(l); }
    groups.into_values().collect()
}

/// Chooses an argument list for an acceptance query: 1 to `max_len` live labels, with forced spreads
/// (same component, different components, repeated, mutually attacking).
pub fn pick_args(rng: &mut Rng, af: &AAFramework<usize>, max_len: usize) -> Vec<usize> {
    let live: Vec<usize> = af.argument_set().iter().map(|a| *a.label()).collect();
    if live.is_empty() {
        return vec![];
    }
    // mostly 1-3 listed arguments; one list in eight is LONG (4-8 arguments, repetitions likely)
    let k = if max_len <= 1 { 1 } else if max_len >= 4 && rng.chance(1, 8) { rng.range(4, max_len) } else { [1, 2, 2, 3][rng.below(4)].min(max_len) };
    let comps = components(af);
    let mut v: Vec<usize> = Vec::new();
    match rng.below(6) {
        5 if k >= 2 && live.len() <= 10 => {
            // an argument that is in every preferred extension without being grounded (so: possibly outside the
            // ideal extension), next to a grounded one, in a random order: "in all preferred extensions" is
            // necessary, not sufficient, for the ideal / grounded semantics, and the list order must not matter.
            // (The roles are computed with the library itself; this only selects the input.)
            let gr: Vec<usize> = af.grounded_extension().iter().map(|a| *a.label()).collect();
            let mut sk: Vec<usize> = Vec::new();
            let picked = guarded(|| {
                let mut s = PreferredSemanticsSolver::new(af);
                live.iter().filter(|l| !gr.contains(l) && s.is_skeptically_accepted(l)).cloned().collect::<Vec<usize>>()
            });
            if let Ok(x) = picked { sk = x; }
            if !sk.is_empty() && !gr.is_empty() {
                v.push(*rng.pick(&sk));
                v.push(*rng.pick(&gr));
                if k >= 3 { v.push(*rng.pick(&live)); }
                rng.shuffle(&mut v);
            } else {
                for _ in 0..k { v.push(*rng.pick(&live)); }
            }
        }
        4 if k >= 2 => {
            // an argument defeated by the grounded extension (attacked by an unattacked one) next to
            // arbitrary other ones: shortcuts that reason about "attacked by the current set" see
            // a mixed list
            let atts: Vec<(usize, usize)> = af.iter_attacks().map(|a| (*a.attacker().label(), *a.attacked().label())).collect();
            let unattacked: Vec<usize> = live.iter().filter(|l| !atts.iter().any(|(_, b)| b == *l)).cloned().collect();
            let defeated: Vec<usize> = live.iter().filter(|l| atts.iter().any(|(a, b)| b == *l && unattacked.contains(a))).cloned().collect();
            if !defeated.is_empty() {
                v.push(*rng.pick(&defeated));
            }
            while v.len() < k { v.push(*rng.pick(&live)); }
            rng.shuffle(&mut v);
        }
        0 if comps.len() >= 2 => {
            // one argument from each of k different components
            let mut order: Vec<usize> = (0..comps.len()).collect();
            rng.shuffle(&mut order);
            for i in 0..k.min(comps.len()) {
                v.push(*rng.pick(&comps[order[i]]));
            }
        }
        1 => {
            // all from one component
            let c = rng.pick(&comps).clone();
            for _ in 0..k { v.push(*rng.pick(&c)); }
        }
        2 => {
            // an attacker/attacked pair when there is one
            let atts: Vec<(usize, usize)> = af.iter_attacks().map(|a| (*a.attacker().label(), *a.attacked().label())).collect();
            if !atts.is_empty() {
                let (a, b) = *rng.pick(&atts);
                v.push(a);
                if k >= 2 { v.push(b); }
                if k >= 3 { v.push(*rng.pick(&live)); }
            } else {
                for _ in 0..k { v.push(*rng.pick(&live)); }
            }
        }
        _ => {
            for i in 0..k {
                if i > 0 && rng.chance(1, 5) { v.push(v[0]); } else { v.push(*rng.pick(&live)); }
            }
        }
    }
    if v.is_empty() { v.push(*rng.pick(&live)); }
    v
}

/// Emits one case: inputs, recorded events, outcome.
pub fn emit_case(
    out: &mut Out,
    g: &GenAf,
    af: &AAFramework<usize>,
    sem: &str,
    q: &str,
    cert: bool,
    enc: &str,
    args: &[usize],
    fault: Fault,
) -> usize {
    emit_case_pre(out, g, af, sem, q, cert, enc, args, fault, None)
}

/// Same, optionally preceded by another query put to the SAME solver object (whose outcome is not
/// reported): state kept by the object or by its encoder between queries must not matter.
pub fn emit_case_pre(
    out: &mut Out,
    g: &GenAf,
    af: &AAFramework<usize>,
    sem: &str,
    q: &str,
    cert: bool,
    enc: &str,
    args: &[usize],
    fault: Fault,
    pre: Option<Q>,
) -> usize {
    out.case(&format!("static/{}/{}/{}/{}", sem, q, if cert { "cert" } else { "nocert" }, enc));
    out.inp(&format!("recipe {}", g.recipe));
    write_build(out, &g.build);
    out.inp(&format!("args {}", join(args.iter(), " ")));
    if let Fault::UnknownAt(k) = fault {
        out.inp(&format!("fault {}", k));
    }
    if let Some((pq, pc, pa)) = &pre {
        out.inp(&format!("pre {} {} {}", pq, if *pc { 1 } else { 0 }, join(pa.iter(), " ")));
    }
    if EXTERNAL_BACKEND.with(|b| b.borrow().is_some()) {
        out.inp("backend external-partial");
    }
    let sh = new_shared(fault);
    let fac = recording_factory(&sh);
    let r = guarded(|| match &pre {
        None => run_query(af, sem, q, cert, enc, args, fac),
        Some(p) => run_queries(af, sem, enc, &[p.clone(), (q, cert, args.to_vec())], fac).pop().unwrap(),
    });
    flush_log(&sh, out);
    match r {
        Ok(o) => out.out(&o.to_line()),
        Err(m) => out.out(&format!("panic {}", m)),
    }
    out.end();
    let n = *sh.n_solves.borrow();
    n
}

pub struct Cfg {
    pub max_args: usize,
    /// which queries to generate: any of "SE", "DC", "DS"
    pub queries: Vec<String>,
    /// certificate variants to generate
    pub certs: Vec<bool>,
    /// exhaustive enumeration of small frameworks instead of random generation
    pub exhaustive_n: Option<usize>,
    pub large: bool,
    /// inject an Unknown answer at each SAT-call position of each query (C17)
    pub faults: bool,
    /// never precede a case by another query on the same object (C18 counts the calls of ONE query)
    pub nopre: bool,
    /// path of the verified reference solver: one small case in sixteen runs on it (partial models) instead of CaDiCaL
    pub external: Option<String>,
    /// one small case in `ext_rate` runs on the external backend (default 8)
    pub ext_rate: usize,
    pub shard: (usize, usize),
}

impl Cfg {
    pub fn from_extra(extra: &[String], max_args: usize) -> Cfg {
        let mut c = Cfg { max_args, queries: vec!["SE".into(), "DC".into(), "DS".into()], certs: vec![false, true], exhaustive_n: None, large: false, faults: false, nopre: false, external: None, ext_rate: 8, shard: (0, 1) };
        let mut i = 0;
        while i < extra.len() {
            match extra[i].as_str() {
                "--q" => { c.queries = extra[i + 1].split(',').map(|x| x.to_string()).collect(); i += 2 }
                "--cert" => { c.certs = match extra[i + 1].as_str() { "0" => vec![false], "1" => vec![true], _ => vec![false, true] }; i += 2 }
                "--exhaustive" => { c.exhaustive_n = Some(extra[i + 1].parse().unwrap()); i += 2 }
                "--large" => { c.large = true; i += 1 }
                "--faults" => { c.faults = true; i += 1 }
                "--nopre" => { c.nopre = true; i += 1 }
                "--external" => { c.external = Some(extra[i + 1].clone()); i += 2 }
                "--external-rate" => { c.ext_rate = extra[i + 1].parse().unwrap(); i += 2 }
                "--shard" => { let t: Vec<usize> = extra[i + 1].split('/').map(|x| x.parse().unwrap()).collect(); c.shard = (t[0], t[1]); i += 2 }
                _ => i += 1,
            }
        }
        c
    }
}

/// All frameworks with exactly n arguments (compact ids), attack relation = every subset of n*n pairs.
pub fn exhaustive_frameworks(n: usize) -> Vec<GenAf> {
    let pairs: Vec<(usize, usize)> = (0..n).flat_map(|a| (0..n).map(move |b| (a, b))).collect();
    let mut v = Vec::new();
    for mask in 0u64..(1u64 << pairs.len()) {
        let atts: Vec<(usize, usize)> = pairs.iter().enumerate().filter(|(i, _)| mask >> i & 1 == 1).map(|(_, p)| *p).collect();
        v.push(GenAf { build: Build::Iccma(n, atts), recipe: "exhaustive" });
    }
    v
}

/// Largest product of defender-set sizes over the arguments (what the exp encoder enumerates).
pub fn max_defender_product(af: &AAFramework<usize>) -> usize {
    let mut best = 0usize;
    for a in af.argument_set().iter() {
        let mut p = 1usize;
        for att in af.iter_attacks_to(a) {
            let k = af.iter_attacks_to(att.attacker()).count();
            p = p.saturating_mul(k.max(1));
        }
        best = best.max(p);
    }
    best
}

pub fn run(rng: &mut Rng, count: usize, thorough: bool, cfg: &Cfg, out: &mut Out) {
    let max_n = if thorough { 9 } else { 7 };
    let mut produced = 0;
    let mut pool: Vec<GenAf> = Vec::new();
    if let Some(n) = cfg.exhaustive_n {
        let mut idx = 0;
        for k in 0..=n {
            for g in exhaustive_frameworks(k) {
                if idx % cfg.shard.1 == cfg.shard.0 { pool.push(g); }
                idx += 1;
            }
        }
        pool.reverse();
    }
    loop {
        let g = if cfg.exhaustive_n.is_some() {
            match pool.pop() { Some(g) => g, None => break }
        } else {
            if produced >= count { break; }
            if cfg.large {
                let n = rng.range(20, if thorough { 300 } else { 120 });
                gen_large(rng, n)
            } else if rng.chance(1, 12) {
                let (n, a, r) = if rng.chance(1, 2) { funnel(rng) } else { multi_funnel(rng) };
                finish(rng, n, a, r)
            } else {
                gen_af(rng, max_n)
            }
        };
        let af = build_af(&g.build);
        let all = cfg.exhaustive_n.is_some();
        for (sem, q) in PROBLEMS.iter() {
            if !cfg.queries.iter().any(|x| x == q) {
                continue;
            }
            if !all && !rng.chance(1, 3) {
                continue;
            }
            if *q != "SE" && af.n_arguments() == 0 {
                continue;
            }
            let encs = encoders_for(sem, q);
            let mut enc_list: Vec<&str> = if all { encs.clone() } else { vec![*rng.pick(&encs)] };
            // the exp encoder is exponential in the product of the defender-set sizes (a performance
            // matter outside the properties): keep it to products the model side replays in seconds
            if !all && max_defender_product(&af) > 600 {
                for e in enc_list.iter_mut() { if *e == "exp_co" { *e = "hyb_co"; } }
            }
            // exhaustive mode: every single argument (and, for lists, every pair); else a drawn list
            let arg_lists: Vec<Vec<usize>> = if *q == "SE" {
                vec![vec![]]
            } else if all {
                let live: Vec<usize> = af.argument_set().iter().map(|a| *a.label()).collect();
                let mut v: Vec<Vec<usize>> = live.iter().map(|a| vec![*a]).collect();
                if cfg.max_args >= 2 {
                    for a in live.iter() { for b in live.iter() { if a < b { v.push(vec![*a, *b]); } } }
                }
                v
            } else {
                vec![pick_args(rng, &af, cfg.max_args)]
            };
            let certs: Vec<bool> = if *q == "SE" { vec![false] } else { cfg.certs.clone() };
            for args in arg_lists.iter() {
            for enc in enc_list.iter() {
                for cert in certs.iter() {
                    if cfg.faults {
                        // fault-free run to count the SAT calls, then one run per call position
                        let mut scratch = Out::default();
                        let k = emit_case(&mut scratch, &g, &af, sem, q, *cert, enc, &args, Fault::None);
                        let positions: Vec<usize> = if k <= 10 { (0..k).collect() } else {
                            let mut v: Vec<usize> = vec![0, 1, k - 1, k - 2];
                            for _ in 0..6 { v.push(rng.below(k)); }
                            v.sort(); v.dedup(); v
                        };
                        for p in positions {
                            emit_case(out, &g, &af, sem, q, *cert, enc, &args, Fault::UnknownAt(p));
                            produced += 1;
                        }
                        continue;
                    }
                    // one case in five is preceded by another query on the same solver object
                    let pre: Option<Q> = if !all && !cfg.nopre && rng.chance(1, 5) {
                        let supported: Vec<&str> = PROBLEMS.iter().filter(|(s2, _)| s2 == sem).map(|(_, q2)| *q2).collect();
                        let pq = *rng.pick(&supported);
                        let pa = if pq == "SE" || af.n_arguments() == 0 { vec![] } else { pick_args(rng, &af, cfg.max_args) };
                        if pq != "SE" && pa.is_empty() { None } else { Some((pq, pq != "SE" && rng.chance(1, 2), pa)) }
                    } else { None };
                    // a small case in sixteen runs on the external verified solver printing partial models
                    let ext = match &cfg.external {
                        Some(p) if !all && af.n_arguments() <= 8 && max_defender_product(&af) <= 16 && rng.chance(1, cfg.ext_rate.max(1)) => Some(p.clone()),
                        _ => None,
                    };
                    if let Some(p) = &ext {
                        // (half of them with the opposite decision polarity: small models, candidates grown step by step)
                        let opt = if rng.chance(1, 2) { "--partial" } else { "--flip" };
                        EXTERNAL_BACKEND.with(|b| *b.borrow_mut() = Some((p.clone(), vec![opt.to_string()])));
                    }
                    emit_case_pre(out, &g, &af, sem, q, *cert, enc, &args, Fault::None, pre);
                    if ext.is_some() {
                        EXTERNAL_BACKEND.with(|b| *b.borrow_mut() = None);
                    }
                    produced += 1;
                }
            }
            }
        }
    }
}
