//! Mode `dynamic` (C08, C09): random update/query histories on the six dynamic solvers, every SAT
//! interaction recorded.  One case = one solver kind (+ reservation factor) + one history.
//! Per step the file holds: the IN line of the step, the EV lines recorded during the step, one OUT
//! line (`r ok|err|panic <msg>` for an update, `acc ...|panic <msg>` for a query).
use crate::common::*;
use crate::gen::*;
use crustabri::aa::{AAFramework, ArgumentSet};
use crustabri::dynamics::assumptions_on_attacks::{
    DynamicCompleteSemanticsSolverAttacks, DynamicStableSemanticsSolverAttacks,
};
use crustabri::dynamics::{
    DummyDynamicConstraintsEncoder, DynamicCompleteSemanticsSolver, DynamicPreferredSemanticsSolver,
    DynamicSolver, DynamicStableSemanticsSolver,
};
use crustabri::solvers::{
    CompleteSemanticsSolver, CredulousAcceptanceComputer, PreferredSemanticsSolver,
    SkepticalAcceptanceComputer, StableSemanticsSolver,
};
use std::rc::Rc;

pub trait Dyn:
    DynamicSolver<usize> + CredulousAcceptanceComputer<usize> + SkepticalAcceptanceComputer<usize>
{
}
impl<X> Dyn for X where
    X: DynamicSolver<usize>
        + CredulousAcceptanceComputer<usize>
        + SkepticalAcceptanceComputer<usize>
{
}

/// solver kinds: (name, supported query types)
pub const KINDS: [(&str, &[&str]); 8] = [
    ("co", &["DC"]),
    ("st", &["DC", "DS"]),
    ("pr", &["DS"]),
    ("co_att", &["DC"]),
    ("st_att", &["DC", "DS"]),
    ("dummy_co", &["DC"]),
    ("dummy_st", &["DC", "DS"]),
    ("dummy_pr", &["DS"]),
];
/// reservation factors of the assumptions-on-attacks variants, as dyadic fractions
pub const FACTORS: [(usize, usize); 4] = [(1, 1), (3, 2), (2, 1), (3, 1)];

pub fn supported(kind: &str) -> &'static [&'static str] {
    KINDS.iter().find(|k| k.0 == kind).map(|k| k.1).unwrap_or(&[])
}

#[derive(Clone, Debug, PartialEq, Eq)]
pub enum Step {
    Up(Op),
    Query { q: String, label: usize, cert: bool },
}

impl Step {
    pub fn to_line(&self) -> String {
        match self {
            Step::Up(op) => format!("op {}", op.to_string()),
            Step::Query { q, label, cert } => {
                format!("q {} {} {}", q, label, if *cert { "cert" } else { "nocert" })
            }
        }
    }
}

pub fn make_solver(kind: &str, factor: (usize, usize), sh: &Rc<Shared>) -> Box<dyn Dyn> {
    let f = factor.0 as f64 / factor.1 as f64;
    match kind {
        "co" => Box::new(DynamicCompleteSemanticsSolver::new_with_sat_solver_factory(recording_factory(sh))),
        "st" => Box::new(DynamicStableSemanticsSolver::new_with_sat_solver_factory(recording_factory(sh))),
        "pr" => Box::new(DynamicPreferredSemanticsSolver::new_with_sat_solver_factory(recording_factory(sh))),
        "co_att" => Box::new(
            DynamicCompleteSemanticsSolverAttacks::new_with_sat_solver_factory_and_arg_factor(recording_factory(sh), f),
        ),
        "st_att" => Box::new(
            DynamicStableSemanticsSolverAttacks::new_with_sat_solver_factory_and_arg_factor(recording_factory(sh), f),
        ),
        "dummy_co" => {
            let s1 = Rc::clone(sh);
            Box::new(DummyDynamicConstraintsEncoder::new(
                Some(Box::new(move |af| {
                    Box::new(CompleteSemanticsSolver::new_with_sat_solver_factory(af, recording_factory(&s1)))
                })),
                None,
            ))
        }
        "dummy_st" => {
            let s1 = Rc::clone(sh);
            let s2 = Rc::clone(sh);
            Box::new(DummyDynamicConstraintsEncoder::new(
                Some(Box::new(move |af| {
                    Box::new(StableSemanticsSolver::new_with_sat_solver_factory(af, recording_factory(&s1)))
                })),
                Some(Box::new(move |af| {
                    Box::new(StableSemanticsSolver::new_with_sat_solver_factory(af, recording_factory(&s2)))
                })),
            ))
        }
        "dummy_pr" => {
            let s2 = Rc::clone(sh);
            Box::new(DummyDynamicConstraintsEncoder::new(
                None,
                Some(Box::new(move |af| {
                    Box::new(PreferredSemanticsSolver::new_with_sat_solver_factory(af, recording_factory(&s2)))
                })),
            ))
        }
        _ => panic!("unknown dynamic solver kind"),
    }
}

fn ext_line(e: &[&crustabri::aa::Argument<usize>]) -> String {
    join(e.iter().map(|a| format!("{}:{}", a.id(), a.label())), " ")
}

fn run_step(s: &mut Box<dyn Dyn>, st: &Step) -> String {
    match st {
        Step::Up(op) => {
            let r = guarded(|| match op {
                Op::NewArg(l) => {
                    s.new_argument(*l);
                    Ok(())
                }
                Op::RemArg(l) => s.remove_argument(l).map_err(|_| ()),
                Op::NewAtt(a, b) => s.new_attack(a, b).map_err(|_| ()),
                Op::RemAtt(a, b) => s.remove_attack(a, b).map_err(|_| ()),
            });
            match r {
                Ok(Ok(())) => "r ok".to_string(),
                Ok(Err(())) => "r err".to_string(),
                Err(m) => format!("r panic {}", m),
            }
        }
        Step::Query { q, label, cert } => {
            let r = guarded(|| {
                let a = [label];
                if q == "DC" {
                    if *cert {
                        let (b, c) = s.are_credulously_accepted_with_certificate(&a);
                        (b, c.map(|e| ext_line(&e)))
                    } else {
                        (s.are_credulously_accepted(&a), None)
                    }
                } else if *cert {
                    let (b, c) = s.are_skeptically_accepted_with_certificate(&a);
                    (b, c.map(|e| ext_line(&e)))
                } else {
                    (s.are_skeptically_accepted(&a), None)
                }
            });
            match r {
                Ok((b, Some(c))) => format!("acc {} cert {}", if b { "YES" } else { "NO" }, c),
                Ok((b, None)) => format!("acc {} nocert", if b { "YES" } else { "NO" }),
                Err(m) => format!("panic {}", m),
            }
        }
    }
}

pub fn emit_case(out: &mut Out, kind: &str, factor: (usize, usize), recipe: &str, steps: &[Step]) {
    emit_case_fault(out, kind, factor, recipe, steps, Fault::None);
}

/// Number of SAT calls of a fault-free run of the history (on a scratch output).
pub fn count_solves(kind: &str, factor: (usize, usize), steps: &[Step]) -> usize {
    let mut scratch = Out::default();
    emit_case_fault(&mut scratch, kind, factor, "count", steps, Fault::None);
    scratch.buf.lines().filter(|l| l.starts_with("EV ") && l.contains(" solve ")).count()
}

/// With `Fault::UnknownAt(k)` the k-th SAT call of the whole history (0-based) answers Unknown: the query
/// that makes it must abort (a panic of `unwrap_model`); the history stops there (property C17).
pub fn emit_case_fault(out: &mut Out, kind: &str, factor: (usize, usize), recipe: &str, steps: &[Step], fault: Fault) {
    out.case(&format!("dynamic/{}", kind));
    out.inp(&format!("kind {} factor {}/{}", kind, factor.0, factor.1));
    out.inp(&format!("recipe {}", recipe));
    let faulty = if let Fault::UnknownAt(k) = fault { out.inp(&format!("fault {}", k)); true } else { false };
    let sh = new_shared(fault);
    let mut flushed = 0usize;
    let mut flush = |out: &mut Out, sh: &Rc<Shared>| {
        let log = sh.log.borrow();
        for l in log.iter().skip(flushed) {
            out.ev(l);
        }
        flushed = log.len();
    };
    let solver = guarded(|| make_solver(kind, factor, &sh));
    flush(out, &sh);
    match solver {
        Err(m) => out.out(&format!("panic constructor {}", m)),
        Ok(mut s) => {
            for st in steps {
                out.inp(&st.to_line());
                let line = run_step(&mut s, st);
                flush(out, &sh);
                out.out(&line);
                // an aborted query ends a fault-injection history (the solver object may be poisoned)
                if faulty && matches!(st, Step::Query { .. }) && line.starts_with("panic") { break; }
            }
            // dropping a solver whose RefCell was poisoned by a caught panic may panic again
            let _ = guarded(move || drop(s));
        }
    }
    out.end();
}

// ------------------------------------------------------------------------------------ generation

struct Gen<'a> {
    rng: &'a mut Rng,
    universe: Vec<usize>,
    mirror: AAFramework<usize>,
    steps: Vec<Step>,
    queries: &'static [&'static str],
    invalid: bool,
    last_query: Option<Step>,
}

impl<'a> Gen<'a> {
    fn live(&self) -> Vec<usize> {
        self.mirror.argument_set().iter().map(|a| *a.label()).collect()
    }
    fn dead(&self) -> Vec<usize> {
        let l = self.live();
        self.universe.iter().copied().filter(|x| !l.contains(x)).collect()
    }
    fn atts(&self) -> Vec<(usize, usize)> {
        self.mirror.iter_attacks().map(|a| (*a.attacker().label(), *a.attacked().label())).collect()
    }
    fn is_live(&self, l: usize) -> bool {
        self.mirror.argument_set().get_argument(&l).is_ok()
    }
    fn has_att(&self, a: usize, b: usize) -> bool {
        self.atts().contains(&(a, b))
    }
    fn up(&mut self, op: Op) {
        let _ = apply_op(&mut self.mirror, &op);
        self.steps.push(Step::Up(op));
    }
    /// a planted (valid) update, followed now and then by a redundant or invalid one when allowed
    fn up_planted(&mut self, op: Op) {
        self.up(op);
        if self.invalid && self.rng.chance(2, 5) {
            let class = if self.rng.chance(1, 2) { 70 } else { 85 };
            let op = self.update_of_class(class);
            self.up(op);
        }
    }
    /// a query on a LIVE label (never on an unknown one: out of scope)
    fn query_on(&mut self, label: usize) {
        if !self.is_live(label) || self.queries.is_empty() {
            return;
        }
        let q = self.rng.pick(self.queries).to_string();
        let cert = self.rng.chance(1, 2);
        let st = Step::Query { q, label, cert };
        self.last_query = Some(st.clone());
        self.steps.push(st);
        // immediately repeated queries: same argument (cache hit), other certificate flag, other argument
        if self.rng.chance(1, 3) {
            self.repeat_query();
        }
    }
    fn repeat_query(&mut self) {
        if let Some(Step::Query { q, label, cert }) = self.last_query.clone() {
            let live = self.live();
            let st = match self.rng.below(4) {
                0 => Step::Query { q, label, cert },
                1 => Step::Query { q, label, cert: !cert },
                2 => Step::Query { q: self.rng.pick(self.queries).to_string(), label, cert: self.rng.chance(1, 2) },
                _ => Step::Query { q, label: *self.rng.pick(&live), cert: self.rng.chance(1, 2) },
            };
            self.last_query = Some(st.clone());
            self.steps.push(st);
        }
    }
    fn random_query(&mut self) {
        let live = self.live();
        if live.is_empty() {
            return;
        }
        let l = *self.rng.pick(&live);
        self.query_on(l);
    }
    fn maybe_query(&mut self, num: usize, den: usize) {
        if self.rng.chance(num, den) {
            self.random_query();
        }
    }

    /// strictly valid update of the requested kind when one exists (0 +a, 1 -a, 2 +t, 3 -t)
    fn valid_of_kind(&mut self, k: usize) -> Option<Op> {
        let live = self.live();
        let dead = self.dead();
        let atts = self.atts();
        match k {
            0 => if dead.is_empty() { None } else { Some(Op::NewArg(*self.rng.pick(&dead))) },
            1 => if live.is_empty() { None } else { Some(Op::RemArg(*self.rng.pick(&live))) },
            2 => {
                let mut free: Vec<(usize, usize)> = Vec::new();
                for a in live.iter() {
                    for b in live.iter() {
                        if !atts.contains(&(*a, *b)) && (a != b || self.rng.chance(1, 3)) {
                            free.push((*a, *b));
                        }
                    }
                }
                if free.is_empty() { None } else { let (a, b) = *self.rng.pick(&free); Some(Op::NewAtt(a, b)) }
            }
            _ => if atts.is_empty() { None } else { let (a, b) = *self.rng.pick(&atts); Some(Op::RemAtt(a, b)) },
        }
    }
    fn random_update(&mut self) -> Op {
        let class = if self.invalid { self.rng.below(100) } else { 0 };
        self.update_of_class(class)
    }
    /// class < 70: valid, < 85: redundant, else invalid (falls back to a valid update when the
    /// framework offers no operand of the class)
    fn update_of_class(&mut self, class: usize) -> Op {
        let k = match self.rng.below(100) { 0..=24 => 0, 25..=39 => 1, 40..=79 => 2, _ => 3 };
        let live = self.live();
        let dead = self.dead();
        let atts = self.atts();
        let any = *self.rng.pick(&self.universe);
        if class >= 85 {
            // invalid
            match k {
                0 | 1 => if !dead.is_empty() { return Op::RemArg(*self.rng.pick(&dead)); },
                2 => if !dead.is_empty() {
                    let d = *self.rng.pick(&dead);
                    return if self.rng.chance(1, 2) { Op::NewAtt(d, any) } else { Op::NewAtt(any, d) };
                },
                _ => {
                    if !dead.is_empty() && self.rng.chance(1, 3) {
                        let d = *self.rng.pick(&dead);
                        return if self.rng.chance(1, 2) { Op::RemAtt(d, any) } else { Op::RemAtt(any, d) };
                    }
                    let mut none: Vec<(usize, usize)> = Vec::new();
                    for a in live.iter() { for b in live.iter() { if !atts.contains(&(*a, *b)) { none.push((*a, *b)); } } }
                    if !none.is_empty() { let (a, b) = *self.rng.pick(&none); return Op::RemAtt(a, b); }
                }
            }
        } else if class >= 70 {
            // redundant
            if (k == 0 || k == 1 || atts.is_empty()) && !live.is_empty() {
                return Op::NewArg(*self.rng.pick(&live));
            }
            if !atts.is_empty() { let (a, b) = *self.rng.pick(&atts); return Op::NewAtt(a, b); }
        }
        for kk in [k, 0, 2, 1, 3] {
            if let Some(op) = self.valid_of_kind(kk) { return op; }
        }
        Op::NewArg(any)
    }
    fn random_steps(&mut self, n: usize) {
        // in a long history, now and then a stretch of 30-60 updates with no query in between
        let mut silent = 0usize;
        for i in 0..n {
            if n >= 60 && silent == 0 && self.rng.chance(1, 60) && i + 30 < n { silent = self.rng.range(30, 60); }
            let op = self.random_update();
            let removal = matches!(op, Op::RemArg(_) | Op::RemAtt(_, _));
            self.up(op);
            if silent > 0 { silent -= 1; continue; }
            if removal { self.maybe_query(3, 5) } else { self.maybe_query(2, 5) }
        }
    }

    // ---- planted motifs (valid updates only)
    /// makes `l` a fresh live argument without attacks: removed first when live
    fn fresh(&mut self, l: usize) {
        if self.is_live(l) { self.up_planted(Op::RemArg(l)); }
        self.up_planted(Op::NewArg(l));
    }
    fn att(&mut self, a: usize, b: usize) {
        if !self.has_att(a, b) { self.up_planted(Op::NewAtt(a, b)); }
    }
    /// LARGE universes (20 labels and more): most labels become live at once, with a sparse attack relation that is
    /// well-founded half of the time (so that the grounded extension decides most statuses: polynomial oracle) -
    /// size-dependent slips (tables, bit masks, binary searches above a threshold) need many LIVE arguments
    fn bulk_prelude(&mut self) {
        let mut ls = self.universe.clone();
        self.rng.shuffle(&mut ls);
        let k = ls.len() * self.rng.range(60, 90) / 100;
        ls.truncate(k);
        for l in ls.iter() { self.up(Op::NewArg(*l)); }
        if self.rng.chance(1, 3) { self.random_query(); }
        let well_founded = self.rng.chance(1, 2);
        let m = k * self.rng.range(8, 14) / 10;
        for _ in 0..m {
            let i = self.rng.below(k);
            let j = self.rng.below(k);
            let (a, b) = if well_founded { if i == j { continue; } (ls[i.min(j)], ls[i.max(j)]) } else { (ls[i], ls[j]) };
            self.att(a, b);
            self.maybe_query(1, 12);
        }
        self.random_query();
        // one time in three a HUB: a live argument attacking 16-24 others (adjacency lists above 16 entries), one of
        // its attacks repeated (redundant, when the history may contain such updates), removed, and the target queried
        if self.rng.chance(1, 3) && k >= 20 {
            let h = ls[0];
            let fan = self.rng.range(16, (k - 1).min(24));
            for i in 1..=fan { self.att(h, ls[i]); }
            let t = ls[self.rng.range(1, fan)];
            self.query_on(t);
            if self.invalid { self.up(Op::NewAtt(h, t)); }
            self.up(Op::RemAtt(h, t));
            self.query_on(t);
            if self.invalid && self.rng.chance(1, 2) { self.up(Op::RemAtt(h, t)); self.query_on(t); }
        }
    }
    /// j arguments added and removed again: the ids of everything that follows are sparse
    fn junk_prelude(&mut self, j: usize) {
        let dead = self.dead();
        let ls: Vec<usize> = dead.iter().copied().take(j).collect();
        for l in ls.iter() { self.up(Op::NewArg(*l)); }
        if !ls.is_empty() && self.rng.chance(1, 3) { self.random_query(); }
        for l in ls.iter() { self.up(Op::RemArg(*l)); }
    }
    fn take_labels(&mut self, n: usize) -> Vec<usize> {
        let mut u = self.universe.clone();
        self.rng.shuffle(&mut u);
        u.truncate(n);
        u
    }
    /// k mutually attacking pairs all attacking t, t attacking y
    fn pairs_funnel(&mut self, k: usize, early_query: bool) {
        let ls = self.take_labels(2 * k + 2);
        if ls.len() < 2 * k + 2 { return; }
        let (t, y) = (ls[2 * k], ls[2 * k + 1]);
        // the pairs first; a query before the rest is added (cached results, retired selectors)
        for i in 0..k {
            self.fresh(ls[2 * i]);
            self.fresh(ls[2 * i + 1]);
            self.att(ls[2 * i], ls[2 * i + 1]);
            self.att(ls[2 * i + 1], ls[2 * i]);
        }
        if early_query {
            self.query_on(ls[0]);
            if self.rng.chance(1, 2) { self.query_on(ls[1]); }
        }
        self.fresh(t);
        self.fresh(y);
        let mut order: Vec<usize> = (0..2 * k).collect();
        self.rng.shuffle(&mut order);
        for i in order { self.att(ls[i], t); }
        if self.rng.chance(1, 3) { self.query_on(t); }
        self.att(t, y);
        self.query_on(y);
        if self.rng.chance(1, 2) { self.query_on(t); }
        if self.rng.chance(1, 2) { self.query_on(ls[0]); }
        if self.rng.chance(1, 2) { self.query_on(y); }
    }
    /// an even cycle next to a self-attacker (optionally attacking / attacked by the cycle)
    fn even_cycle_self(&mut self) {
        let len = if self.universe.len() >= 5 && self.rng.chance(1, 2) { 4 } else { 2 };
        let ls = self.take_labels(len + 1);
        if ls.len() < len + 1 { return; }
        for l in ls.iter() { self.fresh(*l); }
        for i in 0..len { self.att(ls[i], ls[(i + 1) % len]); }
        let s = ls[len];
        if self.rng.chance(1, 2) { self.query_on(ls[0]); }
        self.att(s, s);
        match self.rng.below(3) { 0 => self.att(s, ls[0]), 1 => self.att(ls[1], s), _ => {} }
        self.query_on(ls[0]);
        self.query_on(ls[1]);
        if self.rng.chance(1, 2) { self.query_on(s); }
    }
    /// a component without stable extension that appears and disappears
    fn no_stable_component(&mut self) {
        let odd = if self.universe.len() >= 5 && self.rng.chance(1, 2) { 3 } else { 1 };
        let ls = self.take_labels(odd + 2);
        if ls.len() < odd + 2 { return; }
        let (a, b) = (ls[odd], ls[odd + 1]);
        self.fresh(a);
        self.fresh(b);
        self.att(a, b);
        self.query_on(b);
        for i in 0..odd { self.fresh(ls[i]); }
        for i in 0..odd { self.att(ls[i], ls[(i + 1) % odd]); }
        self.query_on(a);
        if self.rng.chance(1, 2) { self.query_on(ls[0]); }
        // disappears: by removing an argument or an attack of the odd cycle
        if self.rng.chance(1, 2) { self.up(Op::RemArg(ls[0])); } else { self.up(Op::RemAtt(ls[0], ls[1 % odd])); }
        self.query_on(a);
        self.query_on(b);
    }
}

pub fn gen_history(rng: &mut Rng, kind: &str, invalid: bool, thorough: bool) -> (&'static str, Vec<Step>) {
    let usz = *rng.pick(&[4usize, 6, 6, 6, 7, 8, 6, 7, 8, 6, 10, 12]);   // rarely more live arguments than the oracle judges (replay tie only above 10)
    // one history in twenty-five lives in a LARGE universe (oracle: the polynomial judge of checks/dyn_common.py and
    // the replay tie; the brute-force oracle judges up to 10 live arguments)
    // (not for the attacks-variant encoders: slot^2 attack variables, their model replay is cubic; 12 labels at most there)
    let usz = if rng.chance(1, 25) && !kind.ends_with("_att") { *rng.pick(&[20usize, 28, 36]) } else { usz };
    let universe: Vec<usize> = (1..=usz).collect();
    // one history in twelve is LONG (the event buffer of the buffered encoders, the variable tables and the
    // SAT session keep growing over a solver's life: length-dependent slips need more than 64 buffered events)
    let long = rng.chance(1, 12);
    let target = if long { rng.range(70, if thorough { 300 } else { 150 }) }
                 else if thorough { rng.range(6, 40) } else { rng.range(4, 24) };
    let recipe_id = rng.below(10);
    let mut g = Gen {
        rng,
        universe,
        mirror: AAFramework::new_with_argument_set(ArgumentSet::new_with_labels(&[])),
        steps: Vec::new(),
        queries: supported(kind),
        invalid,
        last_query: None,
    };
    if usz >= 20 { g.bulk_prelude(); }
    let recipe = match recipe_id {
        0 | 1 => "random",
        2 | 3 | 4 => {
            let j = g.rng.below(5);
            g.junk_prelude(j);
            let k = if usz >= 6 && g.rng.chance(1, 2) { 2 } else { 1 };
            let early = g.rng.chance(2, 3);
            g.pairs_funnel(k, early);
            "pairs_funnel"
        }
        5 | 6 => {
            let j = g.rng.below(3);
            g.junk_prelude(j);
            g.even_cycle_self();
            "even_cycle_self"
        }
        7 | 8 => {
            let j = g.rng.below(3);
            g.junk_prelude(j);
            g.no_stable_component();
            "no_stable_component"
        }
        _ => {
            let n = g.rng.range(2, 8);
            g.random_steps(n);
            match g.rng.below(3) {
                0 => { let e = g.rng.chance(1, 2); g.pairs_funnel(1, e) }
                1 => g.even_cycle_self(),
                _ => g.no_stable_component(),
            }
            "random_then_motif"
        }
    };
    let done = g.steps.len();
    if done < target {
        g.random_steps(target - done);
    } else {
        let n = g.rng.below(4);
        g.random_steps(n);
    }
    if !matches!(g.steps.last(), Some(Step::Query { .. })) {
        g.random_query();
    }
    (if usz >= 20 { "bulk_large_universe" } else { recipe }, g.steps)
}

// ------------------------------------------------------------------------------------ replay

/// Parses the IN lines of a `.cases` file: -> (kind, factor, recipe, steps) per case.
pub fn parse_replay(text: &str) -> Vec<(String, (usize, usize), String, Vec<Step>)> {
    let mut v = Vec::new();
    let mut cur: Option<(String, (usize, usize), String, Vec<Step>)> = None;
    for line in text.lines() {
        let t: Vec<&str> = line.split_whitespace().collect();
        if t.is_empty() { continue; }
        match t[0] {
            "CASE" => cur = Some(("co".to_string(), (2, 1), "replay".to_string(), Vec::new())),
            "END" => { if let Some(c) = cur.take() { v.push(c); } }
            "IN" if t.len() >= 2 => {
                if let Some(c) = cur.as_mut() {
                    match t[1] {
                        "kind" => {
                            c.0 = t[2].to_string();
                            if t.len() >= 5 {
                                let f: Vec<usize> = t[4].split('/').map(|x| x.parse().unwrap()).collect();
                                c.1 = (f[0], f[1]);
                            }
                        }
                        "recipe" => c.2 = t[2..].join(" "),
                        "op" => {
                            let n = |i: usize| t[i].parse::<usize>().unwrap();
                            let op = match t[2] {
                                "+a" => Op::NewArg(n(3)),
                                "-a" => Op::RemArg(n(3)),
                                "+t" => Op::NewAtt(n(3), n(4)),
                                _ => Op::RemAtt(n(3), n(4)),
                            };
                            c.3.push(Step::Up(op));
                        }
                        "q" => c.3.push(Step::Query { q: t[2].to_string(), label: t[3].parse().unwrap(), cert: t[4] == "cert" }),
                        _ => {}
                    }
                }
            }
            _ => {}
        }
    }
    v
}

pub fn run(rng: &mut Rng, count: usize, thorough: bool, extra: &[String], out: &mut Out) {
    // histories have <= 8 live arguments: a case that needs more SAT calls than this is looping
    SOLVE_BUDGET.store(4000, std::sync::atomic::Ordering::Relaxed);
    let mut invalid = false;
    let mut replay: Option<String> = None;
    let mut only: Option<String> = None;
    let mut faults = false;
    let mut i = 0;
    while i < extra.len() {
        match extra[i].as_str() {
            "--invalid" => { invalid = extra[i + 1] == "1"; i += 2 }
            "--replay" => { replay = Some(extra[i + 1].clone()); i += 2 }
            "--kind" => { only = Some(extra[i + 1].clone()); i += 2 }
            "--faults" => { faults = extra[i + 1] == "1"; i += 2 }
            _ => i += 1,
        }
    }
    if let Some(p) = replay {
        let text = std::fs::read_to_string(&p).expect("replay file");
        for (kind, factor, recipe, steps) in parse_replay(&text) {
            emit_case(out, &kind, factor, &recipe, &steps);
        }
        return;
    }
    let start = rng.below(KINDS.len());
    for c in 0..count {
        let kind = match &only { Some(k) => k.as_str(), None => KINDS[(start + c) % KINDS.len()].0 };
        let factor = if kind.ends_with("_att") { *rng.pick(&FACTORS) } else { (1, 1) };
        let (recipe, steps) = gen_history(rng, kind, invalid, thorough);
        if faults {
            // C17: fault-free run to count the SAT calls of the history, then up to three runs with one of
            // them answering Unknown (the first, the last and a random one)
            let k = count_solves(kind, factor, &steps);
            if k == 0 { continue; }
            let mut pos = vec![0, k - 1, rng.below(k)];
            pos.sort();
            pos.dedup();
            for p in pos {
                emit_case_fault(out, kind, factor, recipe, &steps, Fault::UnknownAt(p));
            }
            continue;
        }
        emit_case(out, kind, factor, recipe, &steps);
    }
}
