//! Modes `meta` (C11: metamorphic relations between presentations of one attack graph, locality,
//! cross-semantics consistency) and `cross` (C06: independence of encoding, certificate flag,
//! SAT backend and query order on one solver object).
use crate::common::*;
use crate::gen::*;
use crate::statics::{encoders_for, run_queries, run_query, Outcome, Q};
use crustabri::aa::AAFramework;
use crustabri::sat::{self, ExternalSatSolver, SatSolver};

fn default_factory() -> Box<dyn Fn() -> Box<dyn SatSolver>> {
    Box::new(|| sat::default_solver())
}

fn external_factory(path: &str) -> Box<dyn Fn() -> Box<dyn SatSolver>> {
    let p = path.to_string();
    Box::new(move || Box::new(ExternalSatSolver::new(p.clone(), vec![])))
}

/// the same external solver printing PARTIAL models (don't-care variables left unassigned)
fn external_partial_factory(path: &str) -> Box<dyn Fn() -> Box<dyn SatSolver>> {
    let p = path.to_string();
    Box::new(move || Box::new(ExternalSatSolver::new(p.clone(), vec!["--partial".to_string()])))
}

const ACCEPT: [(&str, &str); 12] = [
    ("GR", "DC"), ("GR", "DS"), ("CO", "DC"), ("ST", "DC"), ("ST", "DS"), ("PR", "DS"),
    ("SST", "DC"), ("SST", "DS"), ("STG", "DC"), ("STG", "DS"), ("ID", "DC"), ("ID", "DS"),
];
const ACCEPT_LARGE: [(&str, &str); 6] =
    [("GR", "DC"), ("GR", "DS"), ("CO", "DC"), ("ST", "DC"), ("ST", "DS"), ("PR", "DS")];

fn status_char(o: &Result<Outcome, String>) -> char {
    match o {
        Ok(Outcome::Acc(true, _)) => 'Y',
        Ok(Outcome::Acc(false, _)) => 'N',
        Ok(_) => '?',
        Err(_) => 'P',
    }
}

/// One row of statuses for `label` (one char per problem of `probs`).
fn row(rng: &mut Rng, af: &AAFramework<usize>, label: usize, probs: &[(&str, &str)], cert: bool) -> String {
    let mut s = String::new();
    let heavy = crate::statics::max_defender_product(af) > 600;
    for (sem, q) in probs.iter() {
        let encs = encoders_for(sem, q);
        let mut enc = *rng.pick(&encs);
        // the exp encoder is exponential in the product of the defender-set sizes (a performance matter
        // outside the properties; one thorough run spent 30 minutes in a single such encoding)
        if enc == "exp_co" && heavy { enc = "hyb_co"; }
        let r = guarded(|| run_query(af, sem, q, cert, enc, &[label], default_factory()));
        s.push(status_char(&r));
    }
    s
}

fn se_labels(af: &AAFramework<usize>, sem: &str, enc: &str) -> String {
    match guarded(|| run_query(af, sem, "SE", false, enc, &[], default_factory())) {
        Ok(Outcome::Ext(Some(s))) => {
            let mut v: Vec<usize> = s
                .split_whitespace()
                .map(|t| t.split(':').nth(1).unwrap().parse().unwrap())
                .collect();
            v.sort();
            format!("ext {}", join(v.iter(), " "))
        }
        Ok(Outcome::Ext(None)) => "none".to_string(),
        Ok(_) => "?".to_string(),
        Err(m) => format!("panic {}", m),
    }
}

/// Builds a framework from labelled arguments (declaration order given) and labelled attacks.
fn build_labelled(labels: &[usize], atts: &[(usize, usize)]) -> AAFramework<usize> {
    let ops: Vec<Op> = atts.iter().map(|(a, b)| Op::NewAtt(*a, *b)).collect();
    build_af(&Build::Hist(labels.to_vec(), ops))
}

pub fn run_meta(rng: &mut Rng, count: usize, thorough: bool, extra: &[String], out: &mut Out) {
    let large = extra.iter().any(|x| x == "--large");
    let mut produced = 0;
    while produced < count {
        // the base graph, compact: labels 1..=n, attacks as label pairs
        let (n, atts0): (usize, Vec<(usize, usize)>) = loop {
            let g = if large {
                { let k = rng_range(rng, 20, if thorough { 300 } else { 120 }); gen_large(rng, k) }
            } else {
                gen_af(rng, if thorough { 8 } else { 7 })
            };
            if let Build::Iccma(n, a) = g.build {
                let mut a2: Vec<(usize, usize)> = a.iter().map(|(x, y)| (x + 1, y + 1)).collect();
                a2.sort();
                a2.dedup();
                if n > 0 {
                    break (n, a2);
                }
            }
        };
        let probs: &[(&str, &str)] = if large { &ACCEPT_LARGE } else { &ACCEPT };
        let labels: Vec<usize> = (1..=n).collect();
        let queried: Vec<usize> = if large {
            let mut v = labels.clone();
            rng.shuffle(&mut v);
            v.truncate(5);
            v
        } else {
            labels.clone()
        };
        out.case(if large { "meta/large" } else { "meta/small" });
        out.inp(&format!("graph {} {}", n, join(atts0.iter().map(|(a, b)| format!("{} {}", a, b)), " ")));
        // original presentation
        let af0 = build_labelled(&labels, &atts0);
        for l in queried.iter() {
            out.out(&format!("orig {} {}", l, row(rng, &af0, *l, probs, false)));
        }
        if !large {
            out.out(&format!("se GR {}", se_labels(&af0, "GR", "-")));
            out.out(&format!("se ID {}", se_labels(&af0, "ID", "aux_co")));
            out.out(&format!("se PR {}", se_labels(&af0, "PR", "aux_co")));
            out.out(&format!("se SST {}", se_labels(&af0, "SST", "aux_co")));
            out.out(&format!("se STG {}", se_labels(&af0, "STG", "aux_cf")));
        }
        out.out(&format!("se ST {}", se_labels(&af0, "ST", "st")));
        // (1) renaming + reordering of declarations
        let mut perm: Vec<usize> = labels.iter().map(|l| l + 5000).collect();
        rng.shuffle(&mut perm);
        let ren = |l: usize| perm[l - 1];
        let mut decl: Vec<usize> = labels.iter().map(|l| ren(*l)).collect();
        rng.shuffle(&mut decl);
        let mut atts1: Vec<(usize, usize)> = atts0.iter().map(|(a, b)| (ren(*a), ren(*b))).collect();
        rng.shuffle(&mut atts1);
        let af1 = build_labelled(&decl, &atts1);
        for l in queried.iter() {
            let with_cert = rng.chance(1, 2);
            out.out(&format!("ren {} {}", l, row(rng, &af1, ren(*l), probs, with_cert)));
        }
        // (2) attack lines reordered and repeated (through the ICCMA reader)
        let mut lines: Vec<(usize, usize)> = atts0.iter().map(|(a, b)| (a - 1, b - 1)).collect();
        for p in atts0.iter() {
            if rng.chance(1, 3) {
                lines.push((p.0 - 1, p.1 - 1));
            }
        }
        rng.shuffle(&mut lines);
        let af2 = build_af(&Build::Iccma(n, lines));
        for l in queried.iter() {
            out.out(&format!("dup {} {}", l, row(rng, &af2, *l, probs, false)));
        }
        // (3) disjoint union with an unrelated framework (fresh labels 9000+)
        let h = gen_af(rng, 4);
        let (hn, hatts): (usize, Vec<(usize, usize)>) = match &h.build {
            Build::Iccma(hn, a) => (*hn, a.iter().map(|(x, y)| (x + 9000, y + 9000)).collect()),
            Build::Hist(init, _) => (init.len().min(3), vec![]),
        };
        let hlabels: Vec<usize> = (0..hn).map(|i| i + 9000).collect();
        let afh = build_labelled(&hlabels, &hatts);
        let h_has_stable = se_labels(&afh, "ST", "st") != "none";
        let mut ul: Vec<usize> = labels.clone();
        ul.extend(hlabels.iter());
        rng.shuffle(&mut ul);
        let mut ua: Vec<(usize, usize)> = atts0.clone();
        ua.extend(hatts.iter());
        rng.shuffle(&mut ua);
        let af3 = build_labelled(&ul, &ua);
        out.out(&format!("unist {}", if h_has_stable { 1 } else { 0 }));
        for l in queried.iter() {
            out.out(&format!("uni {} {}", l, row(rng, &af3, *l, probs, false)));
        }
        out.end();
        produced += 1;
    }
}

fn rng_range(rng: &mut Rng, lo: usize, hi: usize) -> usize {
    rng.range(lo, hi)
}

fn frame_digest(af: &AAFramework<usize>) -> String {
    let universe: Vec<usize> = af.argument_set().iter().map(|a| *a.label()).collect();
    crate::store::observe(af, &universe).join("|")
}

fn acc_string(o: &Result<Outcome, String>) -> String {
    match o {
        Ok(Outcome::Acc(b, _)) => (if *b { "YES" } else { "NO" }).to_string(),
        Ok(Outcome::Ext(Some(_))) => "EXT".to_string(),
        Ok(Outcome::Ext(None)) => "NOEXT".to_string(),
        Err(m) => format!("PANIC({})", m.replace(' ', "_")),
    }
}

pub fn run_cross(rng: &mut Rng, count: usize, thorough: bool, extra: &[String], out: &mut Out) {
    let mut external: Option<String> = None;
    let mut i = 0;
    while i < extra.len() {
        if extra[i] == "--external" {
            external = Some(extra[i + 1].clone());
            i += 2
        } else {
            i += 1
        }
    }
    let mut produced = 0;
    while produced < count {
        // one case in eight: a dense framework (every argument heavy for the hybrid encoder) that gets LONG
        // sequences (20-60 queries) through the hybrid encoder on one object
        let dense_long = rng.chance(1, 8);
        let g = if dense_long { gen_dense(rng, if thorough { 8 } else { 7 }) } else { gen_af(rng, if thorough { 8 } else { 7 }) };
        let af = build_af(&g.build);
        if af.n_arguments() == 0 {
            continue;
        }
        out.case("cross");
        out.inp(&format!("recipe {}", g.recipe));
        write_build(out, &g.build);
        let before = frame_digest(&af);
        let small_for_external = af.n_arguments() <= 6 && crate::statics::max_defender_product(&af) <= 16;
        let heavy_for_exp = crate::statics::max_defender_product(&af) > 5000;
        let live: Vec<usize> = af.argument_set().iter().map(|a| *a.label()).collect();
        // (a) every configuration of every problem on one argument
        let arg = *rng.pick(&live);
        for (sem, q) in crate::statics::PROBLEMS.iter() {
            let args: Vec<usize> = if *q == "SE" { vec![] } else { vec![arg] };
            for enc in encoders_for(sem, q) {
                // the exp encoder is exponential in the product of the defender-set sizes (performance,
                // outside the properties): left out on the few frameworks where one encoding takes minutes
                if enc == "exp_co" && heavy_for_exp { continue; }
                for cert in [false, true] {
                    if *q == "SE" && cert {
                        continue;
                    }
                    let r = guarded(|| run_query(&af, sem, q, cert, enc, &args, default_factory()));
                    out.out(&format!("cfg {} {} {} {} {} cadical => {}", sem, q, arg, enc, if cert { 1 } else { 0 }, acc_string(&r)));
                    if let Some(p) = &external {
                        // the reference solver is a plain DPLL reading its input recursively: keep it
                        // to instances it answers in milliseconds
                        if *sem != "GR" && small_for_external && rng.chance(1, 3) {
                            let r = guarded(|| run_query(&af, sem, q, cert, enc, &args, external_factory(p)));
                            out.out(&format!("cfg {} {} {} {} {} external => {}", sem, q, arg, enc, if cert { 1 } else { 0 }, acc_string(&r)));
                        }
                        if *sem != "GR" && small_for_external && rng.chance(1, 3) {
                            let r = guarded(|| run_query(&af, sem, q, cert, enc, &args, external_partial_factory(p)));
                            out.out(&format!("cfg {} {} {} {} {} external-partial => {}", sem, q, arg, enc, if cert { 1 } else { 0 }, acc_string(&r)));
                        }
                    }
                }
            }
        }
        // (b) a sequence of queries with repetitions on ONE object vs fresh objects
        for sem in ["GR", "CO", "ST", "PR", "SST", "STG", "ID"] {
            let supported: Vec<&str> = crate::statics::PROBLEMS.iter().filter(|(s, _)| *s == sem).map(|(_, q)| *q).collect();
            let encs = encoders_for(sem, "DS");
            let mut enc = *rng.pick(&encs);
            if enc == "exp_co" && heavy_for_exp { enc = "hyb_co"; }
            // mostly 4-8 queries on the one object; one sequence in ten is LONG (9-40 queries)
            let mut len = if rng.chance(1, 10) { rng.range(9, 40) } else { rng.range(4, 8) };
            if dense_long && encs.contains(&"hyb_co") {
                enc = "hyb_co";
                len = rng.range(20, 60);
            }
            let mut qs: Vec<Q> = Vec::new();
            for _ in 0..len {
                if !qs.is_empty() && rng.chance(1, 4) {
                    let last = qs.last().unwrap().clone();
                    qs.push(last);
                    continue;
                }
                let q = *rng.pick(&supported);
                let args = if q == "SE" { vec![] } else { vec![*rng.pick(&live)] };
                qs.push((q, q != "SE" && rng.chance(1, 2), args));
            }
            let one = guarded(|| run_queries(&af, sem, enc, &qs, default_factory()));
            for (k, qq) in qs.iter().enumerate() {
                let on_one: Result<Outcome, String> = match &one {
                    Ok(v) => Ok(match &v[k] {
                        Outcome::Ext(e) => Outcome::Ext(e.clone()),
                        Outcome::Acc(b, c) => Outcome::Acc(*b, c.clone()),
                    }),
                    Err(m) => Err(m.clone()),
                };
                let fresh = guarded(|| run_query(&af, sem, qq.0, qq.1, enc, &qq.2, default_factory()));
                out.out(&format!(
                    "seq {} {} {} {} {} {} => {} fresh {}",
                    sem, enc, k, qq.0, if qq.1 { 1 } else { 0 }, if qq.2.is_empty() { "-".to_string() } else { join(qq.2.iter(), ",") }, acc_string(&on_one), acc_string(&fresh)
                ));
            }
        }
        let after = frame_digest(&af);
        out.out(&format!("frame {}", if before == after { "unchanged" } else { "MODIFIED" }));
        out.end();
        produced += 1;
    }
}

/// Mode `pairs` (C07 / C06): on medium frameworks (9-13 arguments, several preferred extensions: long searches with
/// discarded and restarted candidates) EVERY pair of arguments is put to the skeptical preferred (and, one framework in
/// four, ideal) query with and without certificate, each on a fresh solver object; the two statuses must coincide
/// (both are the disjunction semantics).  Only the disagreements are written, with the number of queries made.
pub fn run_pairs(rng: &mut Rng, count: usize, _thorough: bool, _extra: &[String], out: &mut Out) {
    for _ in 0..count {
        let n = rng.range(9, 13);
        let dens = rng.range(10, 22);
        let mut atts: Vec<(usize, usize)> = Vec::new();
        for a in 0..n {
            for b in 0..n {
                if a != b && rng.below(100) < dens {
                    atts.push((a, b));
                    if rng.chance(1, 3) { atts.push((b, a)); }
                }
            }
        }
        atts.sort();
        atts.dedup();
        rng.shuffle(&mut atts);
        let b = Build::Iccma(n, atts);
        let af = build_af(&b);
        out.case("pairs");
        out.inp("recipe pairs_medium");
        write_build(out, &b);
        let sems: Vec<&str> = if rng.chance(1, 4) { vec!["PR", "ID"] } else { vec!["PR"] };
        let mut n_q = 0;
        for sem in sems.iter() {
            for x in 1..=n {
                for y in (x + 1)..=n {
                    let args = [x, y];
                    let r0 = guarded(|| run_query(&af, sem, "DS", false, "aux_co", &args, default_factory()));
                    let r1 = guarded(|| run_query(&af, sem, "DS", true, "aux_co", &args, default_factory()));
                    n_q += 2;
                    let (s0, s1) = (acc_string(&r0), acc_string(&r1));
                    if s0 != s1 {
                        out.out(&format!("mismatch {} DS {} {} nocert={} cert={}", sem, x, y, s0, s1));
                    }
                }
            }
        }
        out.out(&format!("queries {}", n_q));
        out.end();
    }
}
