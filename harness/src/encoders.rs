//! Mode `encoders` (C10): every public encoder on generated compact frameworks; the clause stream,
//! the reserve call, arg_to_lit, first_range_var and assignment_to_extension are recorded.
use crate::common::*;
use crate::gen::*;
use crate::statics::{exhaustive_frameworks, make_encoder};
use crustabri::aa::AAFramework;
use crustabri::encodings::{self, ConstraintsEncoder, DefaultStableConstraintsEncoder};
use crustabri::sat::{Literal, SatSolver};

/// (name in the case kind, what the factory is documented to capture)
pub const ENCODERS: [&str; 9] = [
    "aux_cf", "aux_adm", "aux_co", "exp_cf", "exp_co", "hyb_co", "st", "default_co", "default_cf",
];

pub fn encoder_by_name(name: &str) -> Box<dyn ConstraintsEncoder<usize>> {
    match name {
        "st" => Box::new(DefaultStableConstraintsEncoder),
        "default_co" => encodings::new_default_complete_constraints_encoder(),
        "default_cf" => encodings::new_default_conflict_freeness_encoder(),
        _ => make_encoder(name),
    }
}

fn compact_only(g: &GenAf) -> bool {
    match &g.build {
        Build::Iccma(_, _) => true,
        Build::Hist(_, ops) => !ops.iter().any(|o| matches!(o, Op::RemArg(_))),
    }
}

fn emit(out: &mut Out, rng: &mut Rng, g: &GenAf, af: &AAFramework<usize>, name: &str, range: bool, warm: Option<&AAFramework<usize>>) {
    out.case(&format!("encoders/{}/{}", name, if range { "range" } else { "plain" }));
    out.inp(&format!("recipe {}", g.recipe));
    write_build(out, &g.build);
    let enc = encoder_by_name(name);
    if let Some(w) = warm {
        // the SAME encoder object has encoded another framework before (as the solvers do, one
        // component after the other): nothing of that may leak into this encoding
        out.inp("warm 1");
        let mut scratch: Box<dyn SatSolver> = Box::new(crustabri::sat::CadicalSolver::default());
        let _ = guarded(|| {
            if range && name != "st" { enc.encode_constraints_and_range(w, scratch.as_mut()) } else { enc.encode_constraints(w, scratch.as_mut()) }
        });
    }
    let sh = new_shared(Fault::None);
    let mut solver = new_recording(&sh);
    let r = guarded(|| {
        if range {
            enc.encode_constraints_and_range(af, solver.as_mut())
        } else {
            enc.encode_constraints(af, solver.as_mut())
        }
    });
    flush_log(&sh, out);
    match r {
        Err(m) => {
            out.out(&format!("panic {}", m));
            out.end();
            return;
        }
        Ok(()) => out.out("encoded"),
    }
    // arg_to_lit for every argument, in id order
    let lits: Vec<Literal> = af.argument_set().iter().map(|a| enc.arg_to_lit(a)).collect();
    out.out(&format!("a2l {}", lits_to_string(&lits)));
    match guarded(|| enc.first_range_var(af.n_arguments())) {
        Ok(v) => out.out(&format!("frv {}", v)),
        Err(_) => out.out("frv panic"),
    }
    // assignment_to_extension on real models: random polarity assumptions on the argument literals
    let n_models = 3;
    for _ in 0..n_models {
        let assumptions: Vec<Literal> = lits
            .iter()
            .filter_map(|l| match rng.below(4) {
                0 => Some(*l),
                1 => Some(l.negate()),
                _ => None,
            })
            .collect();
        let n_before = sh.log.borrow().len();
        let res = guarded(|| solver.solve_under_assumptions(&assumptions));
        sh.log.borrow_mut().truncate(n_before);
        if let Ok(crustabri::sat::SolvingResult::Satisfiable(m)) = res {
            let ext = guarded(|| {
                enc.assignment_to_extension(&m, af)
                    .iter()
                    .map(|a| a.id())
                    .collect::<Vec<usize>>()
            });
            match ext {
                Ok(e) => out.out(&format!("a2e {} => {}", assignment_to_string(&m), join(e.iter(), " "))),
                Err(msg) => out.out(&format!("a2e {} => panic {}", assignment_to_string(&m), msg)),
            }
        }
    }
    out.end();
}

pub fn run(rng: &mut Rng, count: usize, thorough: bool, extra: &[String], out: &mut Out) {
    let mut exhaustive: Option<usize> = None;
    let mut shard = (0usize, 1usize);
    let mut i = 0;
    while i < extra.len() {
        match extra[i].as_str() {
            "--exhaustive" => {
                exhaustive = Some(extra[i + 1].parse().unwrap());
                i += 2
            }
            "--shard" => {
                let t: Vec<usize> = extra[i + 1].split('/').map(|x| x.parse().unwrap()).collect();
                shard = (t[0], t[1]);
                i += 2
            }
            _ => i += 1,
        }
    }
    let max_n = if thorough { 7 } else { 6 };
    let mut pool: Vec<GenAf> = Vec::new();
    if let Some(n) = exhaustive {
        let mut idx = 0;
        for k in 0..=n {
            for g in exhaustive_frameworks(k) {
                if idx % shard.1 == shard.0 {
                    pool.push(g);
                }
                idx += 1;
            }
        }
        pool.reverse();
    }
    let mut produced = 0;
    loop {
        let g = if exhaustive.is_some() {
            match pool.pop() {
                Some(g) => g,
                None => break,
            }
        } else {
            if produced >= count {
                break;
            }
            let g = if rng.chance(1, 8) {
                // a LARGE framework (65-140 arguments, id-aliasing pairs of attackers: gen.rs): clause sets compared with
                // the model at any size; judged by the polynomial CNF oracle of checks/C10.py
                let n = rng.range(65, 140);
                gen_large(rng, n)
            } else if rng.chance(1, 40) {
                // a small DENSE framework: the exp encoder's cartesian product gets into the thousands (6 arguments
                // with 5 attackers each: 5^5 = 3125 clauses per argument; 7 arguments: up to 6^6) - size-dependent
                // slips of that encoder only show there; the all-models oracle still applies (no auxiliary variables)
                let n = if rng.chance(1, 5) { 7 } else { 6 };
                let dens = if n == 7 { rng.range(62, 74) } else { rng.range(80, 97) };
                let mut a = Vec::new();
                for x in 0..n { for y in 0..n { if rng.below(100) < dens { a.push((x, y)); } } }
                GenAf { build: Build::Iccma(n, a), recipe: "dense_exp" }
            } else if rng.chance(1, 6) {
                let (n, a, r) = funnel(rng);
                // compact presentation only
                let mut a2 = a.clone();
                if rng.chance(1, 3) {
                    for p in a.iter() {
                        if rng.chance(1, 8) {
                            a2.push(*p);
                        }
                    }
                }
                GenAf { build: Build::Iccma(n, a2), recipe: r }
            } else {
                gen_af(rng, max_n)
            };
            if !compact_only(&g) {
                continue;
            }
            g
        };
        let af = build_af(&g.build);
        let prod = crate::statics::max_defender_product(&af);
        let heavy = prod > 600 && !(g.recipe == "dense_exp" && prod <= 60_000);
        for name in ENCODERS.iter() {
            if heavy && (*name == "exp_co") {
                continue;
            }
            if exhaustive.is_none() && !rng.chance(1, 2) && !(g.recipe == "dense_exp" && *name == "exp_co") {
                continue;
            }
            for range in [false, true] {
                emit(out, rng, &g, &af, name, range, None);
                produced += 1;
                if exhaustive.is_none() && rng.chance(1, 3) {
                    // a second use of one encoder object: first a funnel or another generated framework
                    let w = if rng.chance(1, 2) {
                        let (n, a, r) = funnel_with(rng, &[&[2, 2, 2, 2, 2], &[6, 6], &[4, 8]]);
                        GenAf { build: Build::Iccma(n, a), recipe: r }
                    } else {
                        GenAf { build: g.build.clone(), recipe: g.recipe }
                    };
                    let waf = build_af(&w.build);
                    emit(out, rng, &g, &af, name, range, Some(&waf));
                    produced += 1;
                }
            }
        }
    }
}
