//! Mode `store` (C12): random update histories on AAFramework<usize>; after every operation the
//! result and ALL observables are printed, orders included.
use crate::common::*;
use crate::gen::*;
use crustabri::aa::{AAFramework, ArgumentSet};

pub fn observe(af: &AAFramework<usize>, universe: &[usize]) -> Vec<String> {
    let mut v = Vec::new();
    let maxid = match af.max_argument_id() {
        Some(i) => i.to_string(),
        None => "-".to_string(),
    };
    v.push(format!(
        "obs nargs={} natt={} maxid={}",
        af.n_arguments(),
        af.n_attacks(),
        maxid
    ));
    v.push(format!(
        "args {}",
        join(
            af.argument_set()
                .iter()
                .map(|a| format!("{}:{}", a.id(), a.label())),
            " "
        )
    ));
    v.push(format!(
        "atts {}",
        join(
            af.iter_attacks()
                .map(|a| format!("{}>{}", a.attacker().id(), a.attacked().id())),
            " "
        )
    ));
    for a in af.argument_set().iter() {
        v.push(format!(
            "from {} {}",
            a.id(),
            join(
                af.iter_attacks_from(a)
                    .map(|t| format!("{}>{}", t.attacker().id(), t.attacked().id())),
                " "
            )
        ));
        v.push(format!(
            "to {} {}",
            a.id(),
            join(
                af.iter_attacks_to(a)
                    .map(|t| format!("{}>{}", t.attacker().id(), t.attacked().id())),
                " "
            )
        ));
    }
    v.push(format!(
        "get {}",
        join(
            universe.iter().map(|l| match af.argument_set().get_argument(l) {
                Ok(a) => format!("{}={}", l, a.id()),
                Err(_) => format!("{}=-", l),
            }),
            " "
        )
    ));
    let upto = af.max_argument_id().map_or(0, |m| m + 1) + 1;
    v.push(format!(
        "has {}",
        join(
            (0..upto).map(|i| if af.argument_set().has_argument_with_id(i) { "1" } else { "0" }),
            ""
        )
    ));
    v
}

/// Weighted operation mix: ~70% valid, ~15% redundant, ~15% invalid w.r.t. the current framework.
pub fn random_op(rng: &mut Rng, universe: &[usize], af: &AAFramework<usize>) -> Op {
    let live: Vec<usize> = af.argument_set().iter().map(|a| *a.label()).collect();
    let dead: Vec<usize> = universe.iter().copied().filter(|l| !live.contains(l)).collect();
    let atts: Vec<(usize, usize)> = af
        .iter_attacks()
        .map(|a| (*a.attacker().label(), *a.attacked().label()))
        .collect();
    let any = |rng: &mut Rng| *rng.pick(universe);
    let pick_or = |rng: &mut Rng, v: &Vec<usize>| if v.is_empty() { *rng.pick(universe) } else { *rng.pick(v) };
    let class = rng.below(100); // <70 valid, <85 redundant, else invalid
    match rng.below(100) {
        0..=24 => {
            if class < 70 { Op::NewArg(pick_or(rng, &dead)) } else { Op::NewArg(pick_or(rng, &live)) }
        }
        25..=39 => {
            if class < 80 { Op::RemArg(pick_or(rng, &live)) } else { Op::RemArg(pick_or(rng, &dead)) }
        }
        40..=74 => {
            if class < 70 {
                let a = pick_or(rng, &live);
                let b = if rng.chance(1, 6) { a } else { pick_or(rng, &live) };
                Op::NewAtt(a, b)
            } else if class < 85 && !atts.is_empty() {
                let (a, b) = *rng.pick(&atts);
                Op::NewAtt(a, b)
            } else {
                let a = pick_or(rng, &dead);
                if rng.chance(1, 2) { Op::NewAtt(a, any(rng)) } else { Op::NewAtt(any(rng), a) }
            }
        }
        _ => {
            if class < 75 && !atts.is_empty() {
                let (a, b) = *rng.pick(&atts);
                Op::RemAtt(a, b)
            } else if class < 88 {
                Op::RemAtt(pick_or(rng, &live), pick_or(rng, &live))
            } else {
                Op::RemAtt(any(rng), pick_or(rng, &dead))
            }
        }
    }
}

pub fn run(rng: &mut Rng, count: usize, thorough: bool, out: &mut Out) {
    for _ in 0..count {
        // rarely a BIG history: many labels, hundreds of operations (vectors grow, many tombstones, long index lists)
        let big = rng.chance(1, 300);
        // one history in sixty plans a WIDE fan: one argument attacking (or attacked by) 17-40 others - adjacency lists of
        // more than 16 entries - with repeated (redundant) insertions and repeated (invalid) removals of its attacks
        let wide = !big && rng.chance(1, 60);
        let usize_univ = if big || wide { rng.range(20, 40) } else { rng.range(1, 6) };
        let universe: Vec<usize> = (1..=usize_univ).collect();
        let n_init = rng.below(usize_univ + 1);
        let mut init: Vec<usize> = Vec::new();
        for _ in 0..n_init {
            init.push(*rng.pick(&universe)); // repetitions on purpose
        }
        let mut len = if big { rng.range(150, 400) } else if wide { rng.range(10, 60) } else if thorough { rng.range(1, 60) } else { rng.range(1, 30) };
        // one history in three starts with a planned "churn" scenario: many attacks sharing an end point
        // (or a dense graph) inserted in a random order and then removed in another random order, so that
        // the per-argument index vectors go through every swap_remove position (a random mix rarely builds
        // three attacks on one target and then removes a non-last one followed by a moved one)
        let mut planned: std::collections::VecDeque<Op> = std::collections::VecDeque::new();
        if big || wide || rng.chance(1, 3) {
            // (a big history plans a dense churn over 14-20 labels: hundreds of attacks inserted, most of them removed)
            let n = if big { rng.range(14, 20) } else if wide { rng.range(18, usize_univ) } else { rng.range(3, 6) };
            let labs: Vec<usize> = (1..=n).collect();
            for l in labs.iter() {
                if !init.contains(l) {
                    planned.push_back(Op::NewArg(*l));
                }
            }
            let hub = *rng.pick(&labs);
            let mut pairs: Vec<(usize, usize)> = match if big { 2 } else if wide { rng.below(2) } else { rng.below(3) } {
                0 => labs.iter().map(|a| (*a, hub)).collect(),            // fan-in (self-attack included)
                1 => labs.iter().map(|b| (hub, *b)).collect(),            // fan-out
                _ => labs.iter().flat_map(|a| labs.iter().map(move |b| (*a, *b))).collect(), // dense
            };
            rng.shuffle(&mut pairs);
            for (a, b) in pairs.iter() {
                planned.push_back(Op::NewAtt(*a, *b));
            }
            // now and then (always in a wide fan) some of the insertions are repeated: redundant, nothing may change
            if wide || rng.chance(1, 4) {
                for _ in 0..rng.range(1, 3) {
                    let (a, b) = *rng.pick(&pairs);
                    planned.push_back(Op::NewAtt(a, b));
                }
            }
            rng.shuffle(&mut pairs);
            let keep = rng.below(pairs.len() + 1);
            for (a, b) in pairs.iter().skip(keep.min(2)) {
                planned.push_back(Op::RemAtt(*a, *b));
                // a removal repeated at once: the second one is an error and changes nothing
                if (wide && rng.chance(1, 4)) || rng.chance(1, 40) {
                    planned.push_back(Op::RemAtt(*a, *b));
                }
            }
            if rng.chance(1, 2) {
                planned.push_back(Op::RemArg(hub));
            }
            len += planned.len();
        }
        let universe: Vec<usize> = if planned.is_empty() { universe } else { (1..=6.max(usize_univ)).collect() };
        out.case("store");
        out.inp(&format!("init {}", join(init.iter(), " ")));
        out.inp(&format!("universe {}", join(universe.iter(), " ")));
        let mut af = match guarded(|| AAFramework::new_with_argument_set(ArgumentSet::new_with_labels(&init))) {
            Ok(af) => af,
            Err(_) => { out.out("obs panic"); out.end(); continue; }
        };
        match guarded(|| observe(&af, &universe)) {
            Ok(ls) => { for l in ls { out.out(&l); } }
            Err(_) => { out.out("obs panic"); out.end(); continue; }
        }
        for _ in 0..len {
            let op = match planned.pop_front() {
                Some(o) => o,
                None => random_op(rng, &universe, &af),
            };
            out.inp(&format!("op {}", op.to_string()));
            let r = guarded(|| apply_op(&mut af, &op));
            match r {
                Ok(Ok(())) => out.out("r ok"),
                Ok(Err(())) => out.out("r err"),
                Err(_) => {
                    out.out("r panic");
                    break;
                }
            }
            match guarded(|| observe(&af, &universe)) {
                Ok(ls) => {
                    for l in ls {
                        out.out(&l);
                    }
                }
                Err(_) => {
                    out.out("obs panic");
                    break;
                }
            }
        }
        out.end();
    }
}
