//! Shared pieces of the correspondence harness: PRNG, case writer, recording SAT solver,
//! panic capture.  No dependency besides crustabri itself.
#![allow(dead_code)]
use crustabri::sat::{
    Assignment, CadicalSolver, Literal, SatSolver, SolvingListener, SolvingResult,
};
use std::cell::RefCell;
use std::fmt::Write as _;
use std::panic::{catch_unwind, AssertUnwindSafe};
use std::rc::Rc;

/// xorshift64* generator; every random choice of the harness derives from one state.
pub struct Rng(pub u64);
impl Rng {
    pub fn new(seed: u64) -> Self {
        let mut r = Rng(seed.wrapping_mul(0x9E3779B97F4A7C15) ^ 0xD1B54A32D192ED03);
        if r.0 == 0 {
            r.0 = 0x1234_5678_9abc_def1;
        }
        for _ in 0..4 {
            r.next();
        }
        r
    }
    pub fn next(&mut self) -> u64 {
        let mut x = self.0;
        x ^= x >> 12;
        x ^= x << 25;
        x ^= x >> 27;
        self.0 = x;
        x.wrapping_mul(0x2545F4914F6CDD1D)
    }
    pub fn below(&mut self, n: usize) -> usize {
        if n == 0 {
            0
        } else {
            (self.next() % (n as u64)) as usize
        }
    }
    pub fn range(&mut self, lo: usize, hi: usize) -> usize {
        lo + self.below(hi - lo + 1)
    }
    pub fn chance(&mut self, num: usize, den: usize) -> bool {
        self.below(den) < num
    }
    pub fn pick<'a, T>(&mut self, v: &'a [T]) -> &'a T {
        &v[self.below(v.len())]
    }
    pub fn shuffle<T>(&mut self, v: &mut [T]) {
        for i in (1..v.len()).rev() {
            let j = self.below(i + 1);
            v.swap(i, j);
        }
    }
}

/// Output buffer for a `.cases` file.
#[derive(Default)]
pub struct Out {
    pub buf: String,
    pub n_cases: usize,
}
impl Out {
    pub fn case(&mut self, kind: &str) {
        self.n_cases += 1;
        writeln!(self.buf, "CASE {} {}", self.n_cases, kind).unwrap();
    }
    pub fn line(&mut self, tag: &str, s: &str) {
        writeln!(self.buf, "{} {}", tag, s).unwrap();
    }
    pub fn inp(&mut self, s: &str) {
        self.line("IN", s)
    }
    pub fn out(&mut self, s: &str) {
        self.line("OUT", s)
    }
    pub fn ev(&mut self, s: &str) {
        self.line("EV", s)
    }
    pub fn end(&mut self) {
        self.buf.push_str("END\n");
    }
}

pub fn install_quiet_panic_hook() {
    std::panic::set_hook(Box::new(|_| {}));
}

/// Runs `f`, turning a panic into Err(message).
pub fn guarded<R>(f: impl FnOnce() -> R) -> Result<R, String> {
    match catch_unwind(AssertUnwindSafe(f)) {
        Ok(r) => Ok(r),
        Err(e) => {
            let msg = if let Some(s) = e.downcast_ref::<&str>() {
                s.to_string()
            } else if let Some(s) = e.downcast_ref::<String>() {
                s.clone()
            } else {
                "?".to_string()
            };
            Err(msg.replace('\n', " "))
        }
    }
}

pub fn join<T: std::fmt::Display>(v: impl IntoIterator<Item = T>, sep: &str) -> String {
    let mut s = String::new();
    for (i, x) in v.into_iter().enumerate() {
        if i > 0 {
            s.push_str(sep);
        }
        write!(s, "{}", x).unwrap();
    }
    s
}

pub fn lits_to_string(l: &[Literal]) -> String {
    join(l.iter().map(|x| isize::from(*x)), " ")
}

pub fn assignment_to_string(a: &Assignment) -> String {
    let mut s = String::new();
    for (_, v) in a.iter() {
        s.push(match v {
            Some(true) => '1',
            Some(false) => '0',
            None => '-',
        });
    }
    if s.is_empty() {
        s.push('e');
    }
    s
}

/// Upper limit on the SAT calls of one case (the largest legitimate count seen is a few hundred).
pub const SAT_CALL_CAP: usize = 3000;

/// Event log shared by all sessions created by one recording factory.
pub type Log = Rc<RefCell<Vec<String>>>;

/// What to do at the k-th solve call (0-based, global over the log's sessions).
#[derive(Clone)]
pub enum Fault {
    None,
    UnknownAt(usize),
}

pub struct Shared {
    pub log: Log,
    pub n_sessions: RefCell<usize>,
    pub n_solves: RefCell<usize>,
    pub fault: Fault,
    /// scripted answers (used instead of the backend when Some)
    pub script: Option<RefCell<std::collections::VecDeque<SolvingResult>>>,
}

/// Upper bound on the number of solve calls per `Shared` (per case); unlimited unless a mode sets it.
pub static SOLVE_BUDGET: std::sync::atomic::AtomicUsize = std::sync::atomic::AtomicUsize::new(usize::MAX);

/// A SatSolver that forwards to CaDiCaL and records every interaction.
pub struct Recording {
    inner: Box<dyn SatSolver>,
    sh: Rc<Shared>,
    id: usize,
}

impl Recording {
    fn ev(&self, s: String) {
        self.sh.log.borrow_mut().push(format!("{} {}", self.id, s));
    }
}

impl SatSolver for Recording {
    fn add_clause(&mut self, cl: Vec<Literal>) {
        self.ev(format!("cl {}", lits_to_string(&cl)));
        self.inner.add_clause(cl)
    }
    fn solve(&mut self) -> SolvingResult {
        self.solve_under_assumptions(&[])
    }
    fn solve_under_assumptions(&mut self, assumptions: &[Literal]) -> SolvingResult {
        let k = {
            let mut n = self.sh.n_solves.borrow_mut();
            *n += 1;
            *n - 1
        };
        // watchdog: a query that keeps calling the oracle is cut (reported as a panic of the query)
        if k >= SAT_CALL_CAP {
            panic!("sat-call-cap-exceeded: more than {} SAT calls in one case", SAT_CALL_CAP);
        }
        if k >= SOLVE_BUDGET.load(std::sync::atomic::Ordering::Relaxed) {
            // a run-away enumeration loop in the code under test: reported as a panic of the call
            panic!("solve budget of the harness exceeded");
        }
        let r = if let Fault::UnknownAt(f) = self.sh.fault {
            if f == k {
                SolvingResult::Unknown
            } else {
                self.inner.solve_under_assumptions(assumptions)
            }
        } else if let Some(sc) = &self.sh.script {
            // keep the backend's variable bookkeeping in step, but answer from the script
            let _ = self.inner.solve_under_assumptions(assumptions);
            sc.borrow_mut().pop_front().unwrap_or(SolvingResult::Unknown)
        } else {
            self.inner.solve_under_assumptions(assumptions)
        };
        let rs = match &r {
            SolvingResult::Satisfiable(a) => format!("S {}", assignment_to_string(a)),
            SolvingResult::Unsatisfiable => "U".to_string(),
            SolvingResult::Unknown => "X".to_string(),
        };
        self.ev(format!("solve {} => {}", lits_to_string(assumptions), rs));
        r
    }
    fn n_vars(&self) -> usize {
        let n = self.inner.n_vars();
        self.ev(format!("nv {}", n));
        n
    }
    fn add_listener(&mut self, listener: Box<dyn SolvingListener>) {
        self.inner.add_listener(listener)
    }
    fn reserve(&mut self, new_max_id: usize) {
        self.ev(format!("res {}", new_max_id));
        self.inner.reserve(new_max_id)
    }
}

pub fn new_shared(fault: Fault) -> Rc<Shared> {
    Rc::new(Shared {
        log: Rc::new(RefCell::new(Vec::new())),
        n_sessions: RefCell::new(0),
        n_solves: RefCell::new(0),
        fault,
        script: None,
    })
}

pub fn new_recording(sh: &Rc<Shared>) -> Box<dyn SatSolver> {
    let id = {
        let mut n = sh.n_sessions.borrow_mut();
        *n += 1;
        *n
    };
    sh.log.borrow_mut().push(format!("{} new", id));
    // the backend behind the recorder: CaDiCaL, or - when a mode set EXTERNAL_BACKEND for the current case - an
    // external process (the verified reference solver printing PARTIAL models: variables it leaves unassigned come
    // back as None, which CaDiCaL never does for a variable it has seen)
    let inner: Box<dyn SatSolver> = match EXTERNAL_BACKEND.with(|b| b.borrow().clone()) {
        Some((path, opts)) => Box::new(crustabri::sat::ExternalSatSolver::new(path, opts)),
        None => Box::<CadicalSolver>::default(),
    };
    Box::new(Recording {
        inner,
        sh: Rc::clone(sh),
        id,
    })
}

thread_local! {
    /// (program, options) of the external solver used as backend of the recording solver, or None for CaDiCaL
    pub static EXTERNAL_BACKEND: RefCell<Option<(String, Vec<String>)>> = RefCell::new(None);
}

/// A factory closure over shared state, usable wherever crustabri expects
/// `Box<dyn Fn() -> Box<dyn SatSolver>>`.
pub fn recording_factory(sh: &Rc<Shared>) -> Box<dyn Fn() -> Box<dyn SatSolver>> {
    let sh = Rc::clone(sh);
    Box::new(move || new_recording(&sh))
}

pub fn flush_log(sh: &Rc<Shared>, out: &mut Out) {
    for l in sh.log.borrow().iter() {
        out.ev(l);
    }
}

pub fn hex(bytes: &[u8]) -> String {
    let mut s = String::with_capacity(bytes.len() * 2);
    for b in bytes {
        write!(s, "{:02x}", b).unwrap();
    }
    if s.is_empty() {
        s.push('-');
    }
    s
}
