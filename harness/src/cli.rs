//! Mode `cli` (C05): runs the two command-line tools (`crustabri`, `crustabri_iccma23`, built from
//! /repo's working tree by checks/lib.py:build_bins) as child processes on generated instance
//! files and records exit status and stdout of every invocation.
//!
//! Well-formed stream: generated frameworks written in BOTH file formats (ICCMA'23 text with
//! comments / CRLF / trailing blank lines / missing final newline / duplicated attack lines;
//! Aspartix text with identifier labels, optional blanks), every one of the 21 problems in a mixed
//! case spelling, a valid argument, and every CLI option (reader spelling, encoding, certificate
//! flag, logging level), option order shuffled.
//! Malformed stream: a FIXED enumerated family (usage errors, unknown problems / arguments,
//! unreadable and ill-formed files, unknown option values), plus the `problems` listing and the
//! informational paths (authors, help).
//!
//! Case layout:
//!   CASE k cli/<main|wrapper>/<class>
//!   IN class <ok|problems|info|err-...>         IN cmdline <printable command line>
//!   IN argv <hex token>...                       (tokens after the program name, `-` = empty token)
//!   IN fmt <iccma|apx> ; IN iccma|apx <n> <a b>... (0-based id pairs in file order) ; IN labels <l>...
//!                                                (a label with a non-ASCII character is written `hex:<hex of its UTF-8 bytes>`)
//!   IN nonascii labels=0|1 arg=0|1               (the Aspartix labels / the -a operand contain non-ASCII characters)
//!   IN unreadable                                (the -f operand is not a readable instance for the reader in use)
//!   IN file <hex bytes>                          (the instance file)
//!   IN problem <hex> ; IN arg <hex|none> ; IN opts reader=.. encoding=.. cert=0|1 logging=..
//!   IN modelled 0|1                              (argv is in the token form covered by Model.Cli.parse_solve)
//!   OUT exit <code|signal|timeout|spawn-failed> ; OUT stdout <hex>
use crate::common::*;
use crate::gen::*;
use std::ffi::OsString;
use std::io::Read;
use std::os::unix::ffi::OsStringExt;
use std::path::{Path, PathBuf};
use std::process::{Command, Stdio};
use std::time::{Duration, Instant};

pub const QUERIES: [&str; 3] = ["SE", "DC", "DS"];
pub const SEMS: [&str; 7] = ["GR", "CO", "PR", "ST", "SST", "STG", "ID"];

struct Env {
    main: String,
    wrapper: String,
    dir: PathBuf,
    shard: (usize, usize),
    scratch_out: PathBuf,
    scratch_err: PathBuf,
}

struct Inst {
    n: usize,
    atts: Vec<(usize, usize)>,
    recipe: &'static str,
}

fn tok(s: &str) -> Vec<u8> {
    s.as_bytes().to_vec()
}

fn printable(argv: &[Vec<u8>]) -> String {
    let mut s = String::new();
    for (i, t) in argv.iter().enumerate() {
        if i > 0 {
            s.push(' ');
        }
        let plain = !t.is_empty()
            && t.iter().all(|b| b.is_ascii_alphanumeric() || b"-_./=+,:".contains(b));
        if plain {
            s.push_str(std::str::from_utf8(t).unwrap());
        } else {
            s.push_str("$'");
            for b in t {
                if b.is_ascii_graphic() && *b != b'\'' && *b != b'\\' {
                    s.push(*b as char);
                } else if *b == b' ' {
                    s.push(' ');
                } else {
                    s.push_str(&format!("\\x{:02x}", b));
                }
            }
            s.push('\'');
        }
    }
    s
}

/// Runs one child process: stdout / stderr to scratch files, 20 s watchdog.
fn run_proc(env: &Env, bin: &str, argv: &[Vec<u8>]) -> (String, Vec<u8>) {
    let of = match std::fs::File::create(&env.scratch_out) {
        Ok(f) => f,
        Err(_) => return ("spawn-failed".to_string(), vec![]),
    };
    let ef = match std::fs::File::create(&env.scratch_err) {
        Ok(f) => f,
        Err(_) => return ("spawn-failed".to_string(), vec![]),
    };
    let mut cmd = Command::new(bin);
    for t in argv {
        cmd.arg(OsString::from_vec(t.clone()));
    }
    cmd.stdin(Stdio::null())
        .stdout(Stdio::from(of))
        .stderr(Stdio::from(ef))
        .env("RUST_BACKTRACE", "0")
        .current_dir(&env.dir);
    let mut child = match cmd.spawn() {
        Ok(c) => c,
        Err(_) => return ("spawn-failed".to_string(), vec![]),
    };
    let t0 = Instant::now();
    let code = loop {
        match child.try_wait() {
            Ok(Some(st)) => {
                break match st.code() {
                    Some(c) => format!("{}", c),
                    None => "signal".to_string(),
                }
            }
            Ok(None) => {
                if t0.elapsed() > Duration::from_secs(20) {
                    let _ = child.kill();
                    let _ = child.wait();
                    break "timeout".to_string();
                }
                std::thread::sleep(Duration::from_millis(2));
            }
            Err(_) => break "wait-failed".to_string(),
        }
    };
    let mut buf = Vec::new();
    if let Ok(mut f) = std::fs::File::open(&env.scratch_out) {
        let _ = f.read_to_end(&mut buf);
    }
    (code, buf)
}

fn gen_inst(rng: &mut Rng, max_n: usize) -> Inst {
    let g = gen_af(rng, max_n);
    match g.build {
        Build::Iccma(n, atts) => Inst { n, atts, recipe: g.recipe },
        ref b => {
            // histories keep the real arguments under the labels 1..=n
            let af = build_af(b);
            let n = af.n_arguments();
            let atts = af
                .iter_attacks()
                .map(|a| (*a.attacker().label() - 1, *a.attacked().label() - 1))
                .collect();
            Inst { n, atts, recipe: g.recipe }
        }
    }
}

/// ICCMA'23 text of the instance, decorated with everything the reader documents as harmless.
fn iccma_file(rng: &mut Rng, inst: &Inst) -> (Vec<u8>, String) {
    let eol = if rng.chance(1, 6) { "\r\n" } else { "\n" };
    let mut feats = Vec::new();
    if eol == "\r\n" {
        feats.push("crlf");
    }
    let mut s = String::new();
    if rng.chance(1, 4) {
        s.push_str("# generated instance");
        s.push_str(eol);
        feats.push("comment-first");
    }
    let sep = if rng.chance(1, 6) {
        feats.push("wide-blanks");
        "  \t"
    } else {
        " "
    };
    s.push_str(&format!("p{}af{}{}", sep, sep, inst.n));
    s.push_str(eol);
    let comment_at = if !inst.atts.is_empty() && rng.chance(1, 5) {
        feats.push("comment-inside");
        Some(rng.below(inst.atts.len()))
    } else {
        None
    };
    for (i, (a, b)) in inst.atts.iter().enumerate() {
        if comment_at == Some(i) {
            s.push_str("#x 1 2");
            s.push_str(eol);
        }
        s.push_str(&format!("{}{}{}", a + 1, sep, b + 1));
        if i + 1 < inst.atts.len() {
            s.push_str(eol);
        }
    }
    if !inst.atts.is_empty() {
        match rng.below(6) {
            0 => feats.push("no-final-newline"),
            1 => {
                s.push_str(eol);
                s.push_str(eol);
                s.push_str(eol);
                feats.push("blank-tail");
            }
            _ => s.push_str(eol),
        }
    }
    (s.into_bytes(), feats.join(","))
}

const TRICKY: [&str; 12] = ["YES", "NO", "w", "arg", "att", "p", "af", "_", "a", "A", "w1", "_0"];

/// Zero digits of decimal-digit scripts (general category Nd): the `\d` of the identifier pattern is
/// Unicode, so these digits are legal inside an Aspartix identifier (`[[:alpha:]]` is ASCII only).
/// 2-byte, 3-byte and 4-byte (outside the BMP) UTF-8 encodings.
const DIGIT_ZEROS: [u32; 7] = [0x0660, 0x06F0, 0x0966, 0x09E6, 0x0E50, 0xFF10, 0x1D7CE];

fn script_number(zero: u32, k: usize) -> String {
    k.to_string().bytes().map(|d| char::from_u32(zero + (d - b'0') as u32).unwrap()).collect()
}

fn apx_labels(rng: &mut Rng, n: usize) -> (Vec<String>, &'static str) {
    match rng.below(7) {
        5 | 6 => {
            // identifiers with non-ASCII decimal digits; one label in four stays ASCII
            let stems = ["a", "_", "Arg", "x_", "w", "YES"];
            let mut v: Vec<String> = (0..n)
                .map(|i| {
                    let stem = stems[rng.below(stems.len())];
                    if rng.chance(1, 4) {
                        format!("{}{}", stem, i)
                    } else {
                        let z = DIGIT_ZEROS[rng.below(DIGIT_ZEROS.len())];
                        let mut l = format!("{}{}", stem, script_number(z, i * 3 + 1));
                        if rng.chance(1, 3) {
                            // a second script and an ASCII tail in the same identifier
                            let z2 = DIGIT_ZEROS[rng.below(DIGIT_ZEROS.len())];
                            l.push_str(&script_number(z2, i));
                            l.push('b');
                        }
                        l
                    }
                })
                .collect();
            // labels must be distinct (same stem + same number in the same script)
            for i in 0..v.len() {
                while v[..i].contains(&v[i]) {
                    v[i].push('_');
                }
            }
            rng.shuffle(&mut v);
            (v, "unicode-digits")
        }
        0 => ((0..n).map(|i| format!("a{}", i + 1)).collect(), "a<i>"),
        1 => ((0..n).map(|i| format!("x_{}", i)).collect(), "x_<i>"),
        2 => ((0..n).map(|i| format!("Arg{}B", i * 7 + 3)).collect(), "Arg<k>B"),
        3 => {
            // permuted single letters, then two letters
            let mut v: Vec<String> = (0..n)
                .map(|i| {
                    if i < 26 {
                        ((b'a' + i as u8) as char).to_string()
                    } else {
                        format!("z{}", i)
                    }
                })
                .collect();
            rng.shuffle(&mut v);
            (v, "letters")
        }
        4 => {
            let mut v: Vec<String> = (0..n)
                .map(|i| if i < TRICKY.len() { TRICKY[i].to_string() } else { format!("t{}", i) })
                .collect();
            rng.shuffle(&mut v);
            (v, "tricky")
        }
        _ => unreachable!(),
    }
}

fn label_token(l: &str) -> String {
    if l.is_ascii() {
        l.to_string()
    } else {
        format!("hex:{}", hex(l.as_bytes()))
    }
}

fn apx_file(rng: &mut Rng, inst: &Inst, labels: &[String]) -> (Vec<u8>, String) {
    let mut feats = Vec::new();
    let eol = if rng.chance(1, 6) {
        feats.push("crlf");
        "\r\n"
    } else {
        "\n"
    };
    let spaced = rng.chance(1, 6);
    if spaced {
        feats.push("inner-blanks");
    }
    let blank_lines = rng.chance(1, 5);
    if blank_lines {
        feats.push("blank-lines");
    }
    let mut s = String::new();
    for l in labels {
        if spaced {
            s.push_str(&format!("  arg( {} ).  ", l));
        } else {
            s.push_str(&format!("arg({}).", l));
        }
        s.push_str(eol);
        if blank_lines && rng.chance(1, 3) {
            s.push_str(eol);
        }
    }
    for (i, (a, b)) in inst.atts.iter().enumerate() {
        if spaced {
            s.push_str(&format!("att({} , {}).", labels[*a], labels[*b]));
        } else {
            s.push_str(&format!("att({},{}).", labels[*a], labels[*b]));
        }
        if i + 1 < inst.atts.len() || !rng.chance(1, 6) {
            s.push_str(eol);
        } else {
            feats.push("no-final-newline");
        }
    }
    (s.into_bytes(), feats.join(","))
}

fn mixed_case(rng: &mut Rng, p: &str) -> String {
    match rng.below(4) {
        0 => p.to_string(),
        1 => p.to_ascii_lowercase(),
        _ => p
            .chars()
            .map(|c| if rng.chance(1, 2) { c.to_ascii_lowercase() } else { c.to_ascii_uppercase() })
            .collect(),
    }
}

fn write_instance_lines(out: &mut Out, fmt: &str, inst: &Inst, labels: &[String], file: &[u8]) {
    out.inp(&format!("fmt {}", fmt));
    out.inp(&format!(
        "{} {} {}",
        fmt,
        inst.n,
        join(inst.atts.iter().map(|(a, b)| format!("{} {}", a, b)), " ")
    ));
    out.inp(&format!("labels {}", join(labels.iter().map(|l| label_token(l)), " ")));
    out.inp(&format!("file {}", hex(file)));
}

fn emit_run(env: &Env, out: &mut Out, bin_is_wrapper: bool, argv: &[Vec<u8>]) {
    let bin = if bin_is_wrapper { &env.wrapper } else { &env.main };
    out.inp(&format!(
        "cmdline {} {}",
        if bin_is_wrapper { "crustabri_iccma23" } else { "crustabri" },
        printable(argv)
    ));
    out.inp(&format!("argv {}", join(argv.iter().map(|t| hex(t)), " ")));
    let (code, stdout) = run_proc(env, bin, argv);
    out.out(&format!("exit {}", code));
    out.out(&format!("stdout {}", hex(&stdout)));
}

/// Shuffles option groups (each group = an option with its value).
fn flatten_shuffled(rng: &mut Rng, mut groups: Vec<Vec<Vec<u8>>>) -> Vec<Vec<u8>> {
    rng.shuffle(&mut groups);
    groups.into_iter().flatten().collect()
}

#[allow(clippy::too_many_arguments)]
fn ok_case(
    env: &Env,
    rng: &mut Rng,
    out: &mut Out,
    wrapper: bool,
    fmt: &str,
    inst: &Inst,
    labels: &[String],
    file_name: &str,
    file: &[u8],
    feats: &str,
    q: &str,
    sem: &str,
) {
    let problem = mixed_case(rng, &format!("{}-{}", q, sem));
    let need_arg = q != "SE";
    if need_arg && inst.n == 0 {
        return; // no valid argument exists: covered by the malformed family
    }
    let arg: Option<String> = if need_arg || (inst.n > 0 && rng.chance(1, 6)) {
        Some(labels[rng.below(inst.n)].clone())
    } else {
        None
    };
    let mut groups: Vec<Vec<Vec<u8>>> = vec![vec![tok("-f"), tok(file_name)], vec![tok("-p"), tok(&problem)]];
    if let Some(a) = &arg {
        groups.push(vec![tok("-a"), tok(a)]);
    }
    let reader_s: &str;
    let enc_s: &str;
    let cert: bool;
    let logging_s: &str;
    if wrapper {
        reader_s = "-";
        enc_s = "-";
        cert = true;
        logging_s = "off";
    } else {
        // reader
        if fmt == "apx" {
            reader_s = "apx";
            groups.push(vec![tok(if rng.chance(1, 2) { "-r" } else { "--reader" }), tok("apx")]);
        } else if rng.chance(1, 2) {
            reader_s = "iccma23";
            groups.push(vec![tok(if rng.chance(1, 2) { "-r" } else { "--reader" }), tok("iccma23")]);
        } else {
            reader_s = "-";
        }
        // encoding
        enc_s = ["-", "aux_var", "exp", "hybrid"][rng.below(4)];
        if enc_s != "-" {
            groups.push(vec![tok("--encoding"), tok(enc_s)]);
        }
        // certificate flag
        cert = rng.chance(1, 2);
        if cert {
            groups.push(vec![tok(if rng.chance(1, 2) { "-c" } else { "--with-certificate" })]);
        }
        // logging level: off for 3 cases of 4 (the statement); other levels print `![` lines as well
        logging_s = if rng.chance(3, 4) { "off" } else { ["error", "warn", "info", "-", "debug", "trace"][rng.below(6)] };
        if logging_s != "-" {
            groups.push(vec![tok("--logging-level"), tok(logging_s)]);
        }
    }
    let mut argv = Vec::new();
    if !wrapper {
        argv.push(tok("solve"));
    }
    argv.extend(flatten_shuffled(rng, groups));
    out.case(&format!("cli/{}/ok", if wrapper { "wrapper" } else { "main" }));
    out.inp("class ok");
    out.inp(&format!("recipe {}", inst.recipe));
    out.inp(&format!("features {}", if feats.is_empty() { "-" } else { feats }));
    write_instance_lines(out, fmt, inst, labels, file);
    out.inp(&format!("problem {}", hex(problem.as_bytes())));
    out.inp(&format!("arg {}", arg.as_ref().map(|a| hex(a.as_bytes())).unwrap_or_else(|| "none".to_string())));
    out.inp(&format!(
        "opts reader={} encoding={} cert={} logging={}",
        reader_s,
        enc_s,
        if cert { 1 } else { 0 },
        logging_s
    ));
    out.inp(&format!(
        "nonascii labels={} arg={}",
        if labels.iter().any(|l| !l.is_ascii()) { 1 } else { 0 },
        if arg.as_ref().map(|a| !a.is_ascii()).unwrap_or(false) { 1 } else { 0 }
    ));
    out.inp("modelled 1");
    emit_run(env, out, wrapper, &argv);
    out.end();
}

// ------------------------------------------------------------------ the malformed family

struct Bad {
    class: &'static str,
    wrapper: bool,
    argv: Vec<Vec<u8>>,
    /// abstract content of the -f operand for the model: Some((fmt, n, atts)) or None = unreadable
    inst: Option<&'static str>,
    modelled: bool,
}

fn toks(v: &[&str]) -> Vec<Vec<u8>> {
    v.iter().map(|s| tok(s)).collect()
}

const GOOD_ICCMA: &str = "p af 3\n1 2\n2 3\n";
const GOOD_APX: &str = "arg(a).\narg(b).\narg(c).\natt(a,b).\natt(b,c).\n";
const GOOD_ICCMA_INST: &str = "iccma 3 0 1 1 2|1 2 3";
const GOOD_APX_INST: &str = "apx 3 0 1 1 2|a b c";

/// (file name, bytes, what) of the ill-formed instance files
fn bad_files() -> Vec<(&'static str, Vec<u8>, &'static str, &'static str)> {
    // name, content, reader, class
    vec![
        ("bad_empty.af", b"".to_vec(), "iccma23", "err-file-missing-preamble"),
        ("bad_only_comment.af", b"# nothing\n".to_vec(), "iccma23", "err-file-missing-preamble"),
        ("bad_pre2.af", b"p af\n".to_vec(), "iccma23", "err-file-preamble"),
        ("bad_pre_q.af", b"q af 3\n1 2\n".to_vec(), "iccma23", "err-file-preamble"),
        ("bad_pre_kind.af", b"p aff 3\n1 2\n".to_vec(), "iccma23", "err-file-preamble"),
        ("bad_pre_neg.af", b"p af -1\n".to_vec(), "iccma23", "err-file-preamble"),
        ("bad_pre_nan.af", b"p af x\n".to_vec(), "iccma23", "err-file-preamble"),
        ("bad_pre_twice.af", b"p af 3\np af 3\n".to_vec(), "iccma23", "err-file-attack"),
        ("bad_att_range.af", b"p af 3\n1 2\n2 4\n".to_vec(), "iccma23", "err-file-attack"),
        ("bad_att_zero.af", b"p af 3\n0 1\n".to_vec(), "iccma23", "err-file-attack"),
        ("bad_att_3words.af", b"p af 3\n1 2 3\n".to_vec(), "iccma23", "err-file-attack"),
        ("bad_att_1word.af", b"p af 3\n1\n".to_vec(), "iccma23", "err-file-attack"),
        ("bad_att_nan.af", b"p af 3\n1 b\n".to_vec(), "iccma23", "err-file-attack"),
        ("bad_att_first.af", b"1 2\np af 3\n".to_vec(), "iccma23", "err-file-preamble"),
        ("bad_blank_inside.af", b"p af 3\n1 2\n\n2 3\n".to_vec(), "iccma23", "err-file-blank-line"),
        ("bad_blank_first.af", b"\np af 3\n1 2\n".to_vec(), "iccma23", "err-file-blank-line"),
        ("bad_nonutf8.af", b"p af 3\n1 2\n# \xff\xfe\n2 3\n".to_vec(), "iccma23", "err-file-non-utf8"),
        ("bad_nonutf8_b.af", b"\xc3\x28 af 3\n".to_vec(), "iccma23", "err-file-non-utf8"),
        ("bad_is_apx.af", GOOD_APX.as_bytes().to_vec(), "iccma23", "err-file-other-format"),
        ("bad_syntax.apx", b"arg(a).\nfoo.\n".to_vec(), "apx", "err-file-apx-syntax"),
        ("bad_nodot.apx", b"arg(a)\n".to_vec(), "apx", "err-file-apx-syntax"),
        ("bad_name.apx", b"arg(1a).\n".to_vec(), "apx", "err-file-apx-name"),
        ("bad_unknown_att.apx", b"arg(a).\natt(a,b).\n".to_vec(), "apx", "err-file-apx-unknown-arg"),
        ("bad_att_first.apx", b"att(a,b).\narg(a).\narg(b).\n".to_vec(), "apx", "err-file-apx-unknown-arg"),
        ("bad_arg_after_att.apx", b"arg(a).\natt(a,a).\narg(b).\n".to_vec(), "apx", "err-file-apx-arg-after-att"),
        ("bad_nonutf8.apx", b"arg(a).\narg(\xff).\n".to_vec(), "apx", "err-file-non-utf8"),
        // `[[:alpha:]]` is ASCII only: letters of other scripts are not identifier characters
        ("bad_name_accent.apx", "arg(a).\narg(\u{e9}t\u{e9}).\n".as_bytes().to_vec(), "apx", "err-file-apx-name"),
        ("bad_name_cyrillic.apx", "arg(\u{434}\u{430}).\n".as_bytes().to_vec(), "apx", "err-file-apx-name"),
        ("bad_name_greek.apx", "arg(a).\narg(a\u{3b1}).\n".as_bytes().to_vec(), "apx", "err-file-apx-name"),
        ("bad_name_astral_letter.apx", "arg(\u{1d400}).\n".as_bytes().to_vec(), "apx", "err-file-apx-name"),
        // a non-ASCII digit may not START an identifier
        ("bad_name_digit_first.apx", "arg(\u{663}a).\n".as_bytes().to_vec(), "apx", "err-file-apx-name"),
        ("bad_att_name_accent.apx", "arg(a).\natt(a,\u{e9}).\n".as_bytes().to_vec(), "apx", "err-file-apx-name"),
        ("bad_is_iccma.apx", GOOD_ICCMA.as_bytes().to_vec(), "apx", "err-file-other-format"),
    ]
}

fn malformed_family() -> Vec<Bad> {
    let mut v: Vec<Bad> = Vec::new();
    let off = ["--logging-level", "off"];
    let mut add = |class: &'static str, wrapper: bool, argv: Vec<Vec<u8>>, inst: Option<&'static str>, modelled: bool| {
        v.push(Bad { class, wrapper, argv, inst, modelled })
    };
    let g = Some(GOOD_ICCMA_INST);
    let ga = Some(GOOD_APX_INST);
    // --- usage errors (clap level)
    add("err-missing-f", false, toks(&["solve", "-p", "SE-CO", "--logging-level", "off"]), g, true);
    add("err-missing-f", true, toks(&["-p", "SE-CO"]), g, true);
    add("err-missing-p", false, toks(&["solve", "-f", "good.af", "--logging-level", "off"]), g, true);
    add("err-missing-p", true, toks(&["-f", "good.af"]), g, true);
    add("err-missing-p", true, toks(&["-f", "good.af", "-a", "1"]), g, true);
    add("err-missing-value", false, toks(&["solve", "-f", "good.af", "--logging-level", "off", "-p"]), g, true);
    add("err-missing-value", true, toks(&["-f", "good.af", "-p"]), g, true);
    add("err-missing-value", false, toks(&["solve", "-p", "SE-CO", "--logging-level", "off", "-f"]), g, true);
    add("err-missing-value", false, toks(&["solve", "-f", "good.af", "-p", "DC-CO", "--logging-level", "off", "-a"]), g, true);
    add("err-missing-value", true, toks(&["-f", "good.af", "-p", "DC-CO", "-a"]), g, true);
    add("err-no-subcommand", false, vec![], g, false);
    add("err-no-subcommand", false, toks(&["--logging-level", "off"]), g, false);
    add("err-unknown-subcommand", false, toks(&["frob", "-f", "good.af", "-p", "SE-CO"]), g, false);
    add("err-unknown-subcommand", false, toks(&["SOLVE", "-f", "good.af", "-p", "SE-CO", "--logging-level", "off"]), g, false);
    add("err-unknown-flag", false, toks(&["solve", "-f", "good.af", "-p", "SE-CO", "--logging-level", "off", "--frob"]), g, true);
    add("err-unknown-flag", false, toks(&["solve", "-f", "good.af", "-p", "SE-CO", "--logging-level", "off", "-z"]), g, true);
    add("err-unknown-flag", true, toks(&["-f", "good.af", "-p", "SE-CO", "--frob"]), g, true);
    add("err-unknown-flag", true, toks(&["-f", "good.af", "-p", "SE-CO", "--reader", "apx"]), g, true);
    add("err-unknown-flag", true, toks(&["-f", "good.af", "-p", "SE-CO", "--logging-level", "off"]), g, true);
    add("err-unknown-flag", true, toks(&["-f", "good.af", "-p", "SE-CO", "--with-certificate"]), g, true);
    add("err-unknown-flag", true, toks(&["-f", "good.af", "-p", "SE-CO", "--encoding", "exp"]), g, true);
    add("err-unknown-flag", true, toks(&["--problems", "extra"]), g, false);
    add("err-unknown-flag", true, toks(&["--problems", "--problems"]), g, false);
    add("err-stray-operand", false, toks(&["solve", "-f", "good.af", "-p", "SE-CO", "--logging-level", "off", "extra"]), g, true);
    add("err-stray-operand", true, toks(&["-f", "good.af", "-p", "SE-CO", "extra"]), g, true);
    add("err-duplicated-option", false, toks(&["solve", "-f", "good.af", "-p", "SE-CO", "-p", "SE-GR", "--logging-level", "off"]), g, true);
    add("err-duplicated-option", true, toks(&["-f", "good.af", "-p", "SE-CO", "-p", "SE-GR"]), g, true);
    add("err-duplicated-option", false, toks(&["solve", "-f", "good.af", "-f", "good.af", "-p", "SE-CO", "--logging-level", "off"]), g, true);
    add("err-duplicated-option", false, toks(&["solve", "-f", "good.af", "-p", "DC-CO", "-a", "1", "-a", "2", "--logging-level", "off"]), g, true);
    add("err-duplicated-option", false, toks(&["solve", "-f", "good.af", "-p", "DC-CO", "-a", "1", "-c", "-c", "--logging-level", "off"]), g, true);
    add("err-duplicated-option", false, toks(&["solve", "-f", "good.af", "-p", "DC-CO", "-a", "1", "-c", "--with-certificate", "--logging-level", "off"]), g, true);
    add("err-duplicated-option", false, toks(&["solve", "-f", "good.af", "-p", "SE-CO", "--logging-level", "off", "--logging-level", "off"]), g, true);
    add("err-duplicated-option", false, toks(&["solve", "-f", "good.af", "-p", "SE-CO", "--logging-level", "off", "-r", "iccma23", "--reader", "iccma23"]), g, true);
    add("err-empty-value", false, toks(&["solve", "-f", "", "-p", "SE-CO", "--logging-level", "off"]), None, true);
    add("err-empty-value", true, toks(&["-f", "", "-p", "SE-CO"]), None, true);
    add("err-empty-value", false, toks(&["solve", "-f", "good.af", "-p", "DC-CO", "-a", "", "--logging-level", "off"]), g, true);
    add("err-empty-value", true, toks(&["-f", "good.af", "-p", "DC-CO", "-a", ""]), g, true);
    // --- unknown option values
    for r in ["foo", "ICCMA23", "apx ", "tgf", ""] {
        let a: Vec<Vec<u8>> = toks(&["solve", "-f", "good.af", "-p", "SE-CO", "--logging-level", "off", "--reader", r]);
        add("err-unknown-reader", false, a, g, true);
    }
    add("err-reader-aba", false, toks(&["solve", "-f", "good.af", "-p", "SE-CO", "--logging-level", "off", "--reader", "iccma23_aba"]), g, true);
    add("err-reader-aba", false, toks(&["solve", "-f", "good.af", "-p", "DC-CO", "-a", "1", "--logging-level", "off", "-r", "iccma23_aba"]), g, true);
    for e in ["foo", "AUX_VAR", "aux-var", ""] {
        add("err-unknown-encoding", false, toks(&["solve", "-f", "good.af", "-p", "SE-PR", "--logging-level", "off", "--encoding", e]), g, true);
    }
    for l in ["foo", "OFF", "none", ""] {
        add("err-unknown-logging-level", false, toks(&["solve", "-f", "good.af", "-p", "SE-PR", "--logging-level", l]), g, true);
    }
    // --- unknown problems
    let bad_problems: [&[u8]; 22] = [
        b"DC-XX", b"XX-CO", b"DCCO", b"", b"DC-", b"-CO", b"-", b"DC-CO-", b"DC--CO", b" DC-CO", b"DC-CO ", b"DC_CO",
        b"SE-COO", b"SEE-CO", b"EE-PR", b"DC-SS", b"SE-STGG", b"CO-DC", b"DC-CO,DS-CO", b"[DC-CO]", b"DC\xe2\x80\x90CO",
        b"\xc5\xbfE-CO",
    ];
    for p in bad_problems.iter() {
        let class = if p.is_empty() { "err-empty-value" } else { "err-unknown-problem" };
        let mut a = toks(&["solve", "-f", "good.af", "--logging-level", "off", "-a", "1", "-p"]);
        a.push(p.to_vec());
        add(class, false, a, g, true);
        let mut w = toks(&["-f", "good.af", "-a", "1", "-p"]);
        w.push(p.to_vec());
        add(class, true, w, g, true);
    }
    {
        // a problem string that is not UTF-8 (clap's value_of panics: status 101)
        let mut a = toks(&["solve", "-f", "good.af", "--logging-level", "off", "-p"]);
        a.push(vec![b'S', b'E', b'-', 0xff]);
        add("err-unknown-problem", false, a, g, false);
        let mut w = toks(&["-f", "good.af", "-p"]);
        w.push(vec![b'S', b'E', b'-', 0xff]);
        add("err-unknown-problem", true, w, g, false);
    }
    // unknown problem with the Aspartix reader too
    add("err-unknown-problem", false, toks(&["solve", "-f", "good.apx", "-r", "apx", "--logging-level", "off", "-p", "SE-XX"]), ga, true);
    // --- DC / DS without -a (all 14 problems, both tools)
    for q in ["DC", "DS"] {
        for s in SEMS.iter() {
            let p = format!("{}-{}", q, s);
            add("err-missing-arg", false, vec![tok("solve"), tok("-f"), tok("good.af"), tok("-p"), tok(&p), tok(off[0]), tok(off[1])], g, true);
            add("err-missing-arg", true, vec![tok("-f"), tok("good.af"), tok("-p"), tok(&p.to_ascii_lowercase())], g, true);
        }
    }
    add("err-missing-arg", false, toks(&["solve", "-f", "good.apx", "-r", "apx", "-p", "DC-PR", "--logging-level", "off", "-c"]), ga, true);
    // --- -a with an unknown argument
    for a in ["4", "0", "99", "abc", "1.0", "1 ", " 1", "a", "0x1", "18446744073709551616", "18446744073709551617", "1,2", "１"] {
        for p in ["DC-CO", "DS-PR", "SE-GR", "DC-GR", "DS-ST"] {
            add("err-unknown-arg", false, toks(&["solve", "-f", "good.af", "-p", p, "--logging-level", "off", "-a", a]), g, true);
        }
        add("err-unknown-arg", true, toks(&["-f", "good.af", "-p", "DC-ST", "-a", a]), g, true);
        add("err-unknown-arg", true, toks(&["-f", "good.af", "-p", "SE-ST", "-a", a]), g, true);
    }
    add("err-unknown-arg", false, toks(&["solve", "-f", "good.af", "-p", "DC-CO", "--logging-level", "off", "-a", "-1"]), g, false);
    add("err-unknown-arg", true, toks(&["-f", "good.af", "-p", "DC-CO", "-a", "-1"]), g, false);
    for a in ["d", "A", "1", "a ", "a,b", "arg(a)", "[a]"] {
        add("err-unknown-arg", false, toks(&["solve", "-f", "good.apx", "-r", "apx", "-p", "DC-CO", "--logging-level", "off", "-a", a]), ga, true);
        add("err-unknown-arg", false, toks(&["solve", "-f", "good.apx", "--reader", "apx", "-p", "SE-PR", "--logging-level", "off", "-c", "-a", a]), ga, true);
    }
    {
        // non-ASCII operands naming no argument; an operand that is not UTF-8 (clap's value_of panics: 101)
        let ops: [&[u8]; 5] = ["a\u{663}".as_bytes(), "\u{e9}".as_bytes(), "\u{ff41}".as_bytes(), b"a\xff", b"\xf0\x9d\x9f"];
        for (k, a) in ops.iter().enumerate() {
            let mut m = toks(&["solve", "-f", "good.apx", "-r", "apx", "-p", "DC-CO", "--logging-level", "off", "-a"]);
            m.push(a.to_vec());
            let _ = k;
            add("err-unknown-arg", false, m, ga, true);
        }
    }
    // --- unreadable files
    for f in ["nonexistent.af", "somedir", "somedir/", "good.af/x", "./nonexistent/../good.af"] {
        add("err-file-unreadable", false, toks(&["solve", "-f", f, "-p", "SE-CO", "--logging-level", "off"]), None, true);
        add("err-file-unreadable", false, toks(&["solve", "-f", f, "-p", "DC-ST", "-a", "1", "--logging-level", "off", "-c"]), None, true);
        add("err-file-unreadable", true, toks(&["-f", f, "-p", "SE-CO"]), None, true);
        add("err-file-unreadable", true, toks(&["-f", f, "-p", "DS-PR", "-a", "1"]), None, true);
    }
    add("err-file-unreadable", false, toks(&["solve", "-f", "noperm.af", "-p", "SE-CO", "--logging-level", "off"]), None, true);
    // --- ill-formed files
    for (name, _, reader, class) in bad_files() {
        for p in ["SE-GR", "SE-ST", "DC-CO", "DS-PR"] {
            let mut a = toks(&["solve", "-f", name, "-p", p, "--logging-level", "off", "-r", reader]);
            if p.starts_with('D') {
                a.push(tok("-a"));
                a.push(tok(if reader == "apx" { "a" } else { "1" }));
            }
            add(class, false, a, None, true);
        }
        if reader == "iccma23" {
            add(class, true, toks(&["-f", name, "-p", "SE-PR"]), None, true);
            add(class, true, toks(&["-f", name, "-p", "DC-ST", "-a", "1"]), None, true);
        }
    }
    v
}

fn info_family() -> Vec<Bad> {
    let mut v = Vec::new();
    let mut add = |class: &'static str, wrapper: bool, argv: Vec<Vec<u8>>| {
        v.push(Bad { class, wrapper, argv, inst: None, modelled: false })
    };
    add("problems", false, toks(&["problems", "--logging-level", "off"]));
    add("problems", true, toks(&["--problems"]));
    add("info-authors", true, vec![]);
    add("info-authors", false, toks(&["authors", "--logging-level", "off"]));
    add("info-help", false, toks(&["--help"]));
    add("info-help", false, toks(&["help"]));
    add("info-help", false, toks(&["solve", "--help"]));
    add("info-help", false, toks(&["help", "solve"]));
    add("info-help", false, toks(&["solve", "-h"]));
    add("info-help", true, toks(&["--help"]));
    add("info-help", true, toks(&["-h"]));
    add("info-help", true, toks(&["-f", "good.af", "-p", "SE-CO", "--help"]));
    add("info-version", true, toks(&["-V"]));
    add("info-version", true, toks(&["--version"]));
    add("info-check", false, toks(&["check", "-f", "good.af", "--logging-level", "off"]));
    add("info-check", false, toks(&["check", "-f", "good.apx", "-r", "apx", "--logging-level", "off"]));
    v
}

fn write_fixed_files(dir: &Path) {
    let _ = std::fs::create_dir_all(dir.join("somedir"));
    let _ = std::fs::write(dir.join("good.af"), GOOD_ICCMA);
    let _ = std::fs::write(dir.join("good.apx"), GOOD_APX);
    for (name, content, _, _) in bad_files() {
        let _ = std::fs::write(dir.join(name), content);
    }
    // a file without read permission (when running as root it stays readable: then the case is
    // a plain well-formed run, and the harness reports it as such)
    let p = dir.join("noperm.af");
    let _ = std::fs::write(&p, GOOD_ICCMA);
    #[cfg(unix)]
    {
        use std::os::unix::fs::PermissionsExt;
        let _ = std::fs::set_permissions(&p, std::fs::Permissions::from_mode(0o000));
    }
}

fn emit_fixed(env: &Env, out: &mut Out, b: &Bad, file_bytes: Option<Vec<u8>>) {
    out.case(&format!("cli/{}/{}", if b.wrapper { "wrapper" } else { "main" }, b.class));
    out.inp(&format!("class {}", b.class));
    match b.inst {
        Some(s) => {
            let mut it = s.split('|');
            let fw = it.next().unwrap();
            let labels = it.next().unwrap();
            out.inp(&format!("fmt {}", fw.split(' ').next().unwrap()));
            out.inp(fw);
            out.inp(&format!("labels {}", labels));
        }
        None => out.inp("unreadable"),
    }
    if let Some(fb) = file_bytes {
        out.inp(&format!("file {}", hex(&fb)));
    }
    out.inp(&format!("modelled {}", if b.modelled { 1 } else { 0 }));
    emit_run(env, out, b.wrapper, &b.argv);
    out.end();
}

pub fn run(rng: &mut Rng, count: usize, thorough: bool, extra: &[String], outp: Option<&str>, out: &mut Out) {
    let mut main = String::new();
    let mut wrapper = String::new();
    let mut shard = (0usize, 1usize);
    let mut only_fixed = false;
    let mut i = 0;
    while i < extra.len() {
        match extra[i].as_str() {
            "--crustabri" => {
                main = extra[i + 1].clone();
                i += 2
            }
            "--wrapper" => {
                wrapper = extra[i + 1].clone();
                i += 2
            }
            "--shard" => {
                let t: Vec<usize> = extra[i + 1].split('/').map(|x| x.parse().unwrap()).collect();
                shard = (t[0], t[1]);
                i += 2
            }
            "--only-fixed" => {
                only_fixed = true;
                i += 1
            }
            _ => i += 1,
        }
    }
    if main.is_empty() || wrapper.is_empty() {
        eprintln!("cli mode: --crustabri P --wrapper Q are required");
        std::process::exit(2);
    }
    let base: PathBuf = match outp {
        Some(p) => Path::new(p).parent().map(|d| d.to_path_buf()).unwrap_or_else(|| PathBuf::from(".")),
        None => std::env::temp_dir(),
    };
    let dir = base.join(format!("cli-files-{}", shard.0));
    let _ = std::fs::remove_dir_all(&dir);
    std::fs::create_dir_all(&dir).expect("cannot create the instance directory");
    let dir = std::fs::canonicalize(&dir).unwrap();
    let env = Env {
        main,
        wrapper,
        scratch_out: dir.join("stdout.tmp"),
        scratch_err: dir.join("stderr.tmp"),
        dir: dir.clone(),
        shard,
    };
    write_fixed_files(&dir);
    let noperm_readable = std::fs::read(dir.join("noperm.af")).is_ok();

    // ---- fixed families, dealt over the shards
    let mut idx = 0usize;
    for b in malformed_family().into_iter().chain(info_family().into_iter()) {
        let mine = idx % env.shard.1 == env.shard.0;
        idx += 1;
        if !mine {
            continue;
        }
        let names_noperm = b.argv.iter().any(|t| t == b"noperm.af");
        if names_noperm && noperm_readable {
            // running with a uid that ignores permissions: the file is a readable instance, the
            // case is not an error case
            continue;
        }
        // attach the bytes of the named file when it is one of the ill-formed ones
        let mut fb = None;
        for (name, content, _, _) in bad_files() {
            if b.argv.iter().any(|t| t == name.as_bytes()) {
                fb = Some(content);
            }
        }
        emit_fixed(&env, out, &b, fb);
    }
    if only_fixed {
        return;
    }

    // ---- generated well-formed invocations
    let max_n = if thorough { 8 } else { 7 };
    for k in 0..count {
        let inst = gen_inst(rng, max_n);
        let (ifile, ifeats) = iccma_file(rng, &inst);
        let iname = format!("i{}.af", k);
        std::fs::write(dir.join(&iname), &ifile).unwrap();
        let ilabels: Vec<String> = (1..=inst.n).map(|i| i.to_string()).collect();
        let (alabels, style) = apx_labels(rng, inst.n);
        let (afile, afeats0) = apx_file(rng, &inst, &alabels);
        let afeats = if afeats0.is_empty() { format!("labels:{}", style) } else { format!("labels:{},{}", style, afeats0) };
        let aname = format!("i{}.apx", k);
        std::fs::write(dir.join(&aname), &afile).unwrap();
        for sem in SEMS.iter() {
            for q in QUERIES.iter() {
                // the main tool on one of the two formats (both for one problem in four)
                let both = rng.chance(1, 4);
                let first_apx = rng.chance(1, 2);
                if both || !first_apx {
                    ok_case(&env, rng, out, false, "iccma", &inst, &ilabels, &iname, &ifile, &ifeats, q, sem);
                }
                if both || first_apx {
                    ok_case(&env, rng, out, false, "apx", &inst, &alabels, &aname, &afile, &afeats, q, sem);
                }
                // the ICCMA'23 wrapper
                if rng.chance(1, 2) {
                    ok_case(&env, rng, out, true, "iccma", &inst, &ilabels, &iname, &ifile, &ifeats, q, sem);
                }
            }
        }
    }
}
