//! Correspondence harness: drives the real crustabri (built from /repo's working tree) on generated
//! inputs and prints everything observable to a `.cases` file for comparison with the Coq model.
mod cli;
mod common;
mod components;
mod encoders;
mod equiv;
mod dynamic;
mod gen;
mod meta;
mod readers;
mod satobj;
mod statics;
mod store;

use common::*;

fn main() {
    let args: Vec<String> = std::env::args().collect();
    if args.len() < 2 {
        eprintln!("usage: vharness <mode> [--seed N] [--count K] [--tier quick|thorough] [--out FILE] [--replay FILE]");
        std::process::exit(2);
    }
    let mode = args[1].clone();
    let mut seed: u64 = 1;
    let mut count: usize = 100;
    let mut tier = "quick".to_string();
    let mut outp: Option<String> = None;
    let mut shard = "0/1".to_string();
    let mut extra: Vec<String> = Vec::new();
    let mut i = 2;
    while i < args.len() {
        match args[i].as_str() {
            "--seed" => {
                seed = args[i + 1].parse().unwrap();
                i += 2
            }
            "--count" => {
                count = args[i + 1].parse().unwrap();
                i += 2
            }
            "--tier" => {
                tier = args[i + 1].clone();
                i += 2
            }
            "--shard" => {
                shard = args[i + 1].clone();
                i += 2
            }
            "--out" => {
                outp = Some(args[i + 1].clone());
                i += 2
            }
            _ => {
                extra.push(args[i].clone());
                i += 1
            }
        }
    }
    install_quiet_panic_hook();
    let thorough = tier == "thorough";
    extra.push("--shard".to_string());
    extra.push(shard.clone());
    let mut rng = Rng::new(seed);
    let mut out = Out::default();
    // a panic OUTSIDE the guarded calls of a mode (a mutated /repo can make even the construction of an input
    // panic) must not lose the cases produced so far nor the one being produced: the open case is closed with
    // `OUT panic harness-crash <message>` and the process exits with status 3
    let crashed = guarded(|| {
    match mode.as_str() {
            "store" => store::run(&mut rng, count, thorough, &mut out),
            "components" => components::run(&mut rng, count, thorough, &mut out),
            "equiv" => equiv::run(&mut rng, count, thorough, &equiv::Cfg::from_extra(&extra), &mut out),
            "static" => statics::run(&mut rng, count, thorough, &statics::Cfg::from_extra(&extra, 1), &mut out),
            "meta" => meta::run_meta(&mut rng, count, thorough, &extra, &mut out),
            "cross" => meta::run_cross(&mut rng, count, thorough, &extra, &mut out),
            "encoders" => encoders::run(&mut rng, count, thorough, &extra, &mut out),
            "readers" => readers::run_readers(&mut rng, count, thorough, &shard, &mut out),
            "writers" => readers::run_writers(&mut rng, count, thorough, &mut out),
            "satobj" => satobj::run_satobj(&mut rng, count, thorough, &extra, &mut out),
            "dimacs" => satobj::run_dimacs(&mut rng, count, thorough, &extra, &mut out),
            "reply" => satobj::run_reply(&mut rng, count, thorough, &extra, &mut out),
            "pipe" => satobj::run_pipe(&mut rng, count, thorough, &extra, &mut out),
            "cli" => cli::run(&mut rng, count, thorough, &extra, outp.as_deref(), &mut out),
            "dynamic" => dynamic::run(&mut rng, count, thorough, &extra, &mut out),
            "pairs" => meta::run_pairs(&mut rng, count, thorough, &extra, &mut out),
            "static-multi" => statics::run(&mut rng, count, thorough, &statics::Cfg::from_extra(&extra, 8), &mut out),
            _ => {
                eprintln!("unknown mode {}", mode);
                std::process::exit(2);
            }
        }
    });
    if let Err(msg) = &crashed {
        let open = out.buf.rfind("\nCASE ").map_or(out.buf.starts_with("CASE "), |p| !out.buf[p..].contains("\nEND\n"));
        if !open {
            out.case("crash");
            out.inp(&format!("crash outside a case in mode {}", mode));
        }
        out.out(&format!("panic harness-crash {}", msg));
        out.end();
    }
    match outp {
        Some(p) => std::fs::write(p, out.buf).unwrap(),
        None => print!("{}", out.buf),
    }
    if crashed.is_err() {
        std::process::exit(3);
    }
}
