//! Mode `equiv` (C19): `utils::EquivalencyComputer` on generated compact frameworks (built through the
//! ICCMA reader, so duplicated attack lines are kept).  Everything observable through the public API
//! is printed: the class of every reduced argument (`reduced_arg_to_init_args`, in the order of the
//! reduced argument ids, members in the order returned), the image of every initial argument
//! (`init_to_reduced_arg`: id and label of the reduced argument) and the reduced framework
//! (arguments and attacks in iteration order).
use crate::common::*;
use crate::gen::*;
use crustabri::aa::AAFramework;
use crustabri::utils::EquivalencyComputer;

pub struct Cfg {
    pub replay: Option<String>,
    pub exhaustive_n: Option<usize>,
    pub shard: (usize, usize),
}

impl Cfg {
    pub fn from_extra(extra: &[String]) -> Cfg {
        let mut c = Cfg { replay: None, exhaustive_n: None, shard: (0, 1) };
        let mut i = 0;
        while i < extra.len() {
            match extra[i].as_str() {
                "--exhaustive" => {
                    c.exhaustive_n = Some(extra[i + 1].parse().unwrap());
                    i += 2
                }
                "--replay" => {
                    c.replay = Some(extra[i + 1].clone());
                    i += 2
                }
                "--shard" => {
                    let t: Vec<usize> = extra[i + 1].split('/').map(|x| x.parse().unwrap()).collect();
                    c.shard = (t[0], t[1]);
                    i += 2
                }
                _ => i += 1,
            }
        }
        c
    }
}

/// What the public API of the reducer shows for `af`.
pub fn observe(af: &AAFramework<usize>) -> Vec<String> {
    let ec = EquivalencyComputer::new(af);
    let red = ec.reduced_af();
    let mut v = Vec::new();
    v.push(format!("nred {} natt {}", red.n_arguments(), red.n_attacks()));
    v.push(format!(
        "r2i {}",
        join(
            red.argument_set().iter().map(|r| {
                format!(
                    "{}={}",
                    r.id(),
                    join(ec.reduced_arg_to_init_args(r).iter().map(|a| a.id()), ",")
                )
            }),
            " "
        )
    ));
    v.push(format!(
        "i2r {}",
        join(
            af.argument_set().iter().map(|a| {
                let r = ec.init_to_reduced_arg(a);
                format!("{}>{}:{}", a.id(), r.id(), r.label())
            }),
            " "
        )
    ));
    v.push(format!(
        "rargs {}",
        join(red.argument_set().iter().map(|r| format!("{}:{}", r.id(), r.label())), " ")
    ));
    v.push(format!(
        "ratts {}",
        join(
            red.iter_attacks().map(|t| format!("{}>{}", t.attacker().id(), t.attacked().id())),
            " "
        )
    ));
    v
}

/// Extra shapes on which the grounded propagation and the two-directional test matter.
fn special(rng: &mut Rng, max_n: usize) -> (usize, Vec<(usize, usize)>, &'static str) {
    match rng.below(7) {
        0 => {
            // chain feeding an even cycle: grounded part, defeated part, then two alternating classes
            let k = rng.range(1, 3);
            let c = [2usize, 4][rng.below(2)];
            let mut a: Vec<(usize, usize)> = (0..k).map(|i| (i, i + 1)).collect();
            for i in 0..c {
                a.push((k + 1 + i, k + 1 + (i + 1) % c));
            }
            if rng.chance(1, 2) {
                a.push((k, k + 1));
            }
            (k + 1 + c, a, "chain_cycle")
        }
        1 => {
            // a<->b, d<->b, b->c : a implies c but c does not imply a
            (4, vec![(0, 1), (1, 0), (3, 1), (1, 3), (1, 2)], "one_way")
        }
        2 => {
            // even cycle of 4 or 6, optionally with a tail
            let c = [4usize, 6][rng.below(2)].min(max_n.max(4));
            let mut a: Vec<(usize, usize)> = (0..c).map(|i| (i, (i + 1) % c)).collect();
            let mut n = c;
            if rng.chance(1, 2) {
                a.push((rng.below(c), c));
                n += 1;
            }
            (n, a, "even_cycle_tail")
        }
        3 => {
            // grounded hierarchy (diamond layers)
            let layers = rng.range(2, 3);
            let mut a = Vec::new();
            let mut n = 1;
            let mut prev = vec![0usize];
            for _ in 0..layers {
                let w = rng.range(1, 2);
                let cur: Vec<usize> = (n..n + w).collect();
                for p in prev.iter() {
                    for c in cur.iter() {
                        a.push((*p, *c));
                    }
                }
                n += w;
                prev = cur;
            }
            (n, a, "hierarchy")
        }
        4 => {
            // self-attacker defeated by the grounded extension, attacking further arguments
            (4, vec![(0, 1), (1, 1), (1, 2), (2, 3), (3, 2)], "defeated_self")
        }
        5 => {
            // two copies of a mutual pair sharing a target: equivalent arguments in different places
            (5, vec![(0, 1), (1, 0), (1, 2), (2, 3), (3, 4), (4, 3)], "pair_chain_pair")
        }
        _ => {
            // mutual attack with a defended tail on each side
            let mut a = vec![(0, 1), (1, 0)];
            let t = rng.range(1, 2);
            let mut n = 2;
            for side in 0..2 {
                let mut last = side;
                for _ in 0..t {
                    a.push((last, n));
                    last = n;
                    n += 1;
                }
            }
            (n, a, "pair_tails")
        }
    }
}

/// Normalises any build of gen.rs to the ICCMA path: (n, attacks by compact ids in iteration order).
fn to_iccma(g: &GenAf) -> Option<(usize, Vec<(usize, usize)>)> {
    match &g.build {
        Build::Iccma(n, atts) => Some((*n, atts.clone())),
        b => {
            let af = build_af(b);
            let n = af.n_arguments();
            // labels of the real arguments are 1..=n in every recipe of gen.rs
            let mut atts = Vec::new();
            for t in af.iter_attacks() {
                let (a, b) = (*t.attacker().label(), *t.attacked().label());
                if a == 0 || b == 0 || a > n || b > n {
                    return None;
                }
                atts.push((a - 1, b - 1));
            }
            Some((n, atts))
        }
    }
}

pub fn gen_case(rng: &mut Rng, thorough: bool) -> GenAf {
    let max_n = if thorough { 10 } else { 8 };
    let style = rng.below(100);
    let (n, mut atts, recipe) = if style < 25 {
        special(rng, max_n)
    } else if style < 92 {
        let g = gen_af(rng, max_n);
        match to_iccma(&g) {
            Some((n, a)) => (n, a, g.recipe),
            None => (0, vec![], "empty"),
        }
    } else {
        // larger frameworks: correspondence only (the brute-force oracle skips them)
        // mostly 12-30 (60) arguments; one in five is a long structure of 65-160 arguments (chains with a few extra
        // attacks and two-cycles): ids above 64, long propagation chains, a big grounded class
        let long = rng.chance(1, 5);
        let hub = !long && rng.chance(1, 8);
        let n = if long { rng.range(65, 160) } else { rng.range(12, if thorough { 60 } else { 30 }) };
        let g = if hub {
            // a HUB: one argument with 250-300 attackers (counters, masks and tables indexed by the number of attackers
            // of ONE argument), guarded by 1-3 arguments that attack the attackers and sit in two-cycles, plus a few
            // further attackers of the hub that are not defeated together with the others
            let k = rng.range(250, 300);
            let guards = rng.range(1, 3);
            let extra = rng.below(3);
            // ids: 0 hub, 1..=k attackers, then guards g_j with partners z_j, then extra attackers y_j with partners w_j
            let mut atts: Vec<(usize, usize)> = Vec::new();
            let gbase = k + 1;
            let ybase = gbase + 2 * guards;
            let n = ybase + 2 * extra;
            for i in 1..=k {
                atts.push((i, 0));
                atts.push((gbase + 2 * (i % guards), i));
            }
            for j in 0..guards {
                let (gd, z) = (gbase + 2 * j, gbase + 2 * j + 1);
                atts.push((gd, z)); atts.push((z, gd));
                if rng.chance(1, 2) { atts.push((0, z)); }
            }
            for j in 0..extra {
                let (y, w) = (ybase + 2 * j, ybase + 2 * j + 1);
                atts.push((y, 0)); atts.push((y, w)); atts.push((w, y));
            }
            let mut perm: Vec<usize> = (0..n).collect();
            if rng.chance(1, 2) { rng.shuffle(&mut perm); }
            for p in atts.iter_mut() { *p = (perm[p.0], perm[p.1]); }
            GenAf { build: Build::Iccma(n, atts), recipe: "hub" }
        } else if long {
            let mut atts: Vec<(usize, usize)> = (0..n - 1).filter(|i| i % 17 != 16).map(|i| (i, i + 1)).collect();
            for _ in 0..rng.below(6) { let a = rng.below(n); let b = rng.below(n); atts.push((a, b)); }
            for _ in 0..rng.below(4) { let a = rng.below(n - 1); atts.push((a + 1, a)); }
            GenAf { build: Build::Iccma(n, atts), recipe: "large" }
        } else { gen_large(rng, n) };
        match to_iccma(&g) {
            Some((n, a)) => (n, a, if g.recipe == "hub" { "hub" } else { "large" }),
            None => (0, vec![], "empty"),
        }
    };
    // renumber the special shapes so that class representatives are not always the small ids
    if style < 25 && rng.chance(1, 2) {
        let mut perm: Vec<usize> = (0..n).collect();
        rng.shuffle(&mut perm);
        for p in atts.iter_mut() {
            *p = (perm[p.0], perm[p.1]);
        }
    }
    // duplicated attack lines (kept by the ICCMA reader), then a random presentation order
    match rng.below(4) {
        0 => {
            let orig = atts.clone();
            for p in orig.iter() {
                if rng.chance(1, 3) {
                    atts.push(*p);
                    if rng.chance(1, 4) {
                        atts.push(*p);
                    }
                }
            }
            rng.shuffle(&mut atts);
        }
        1 => rng.shuffle(&mut atts),
        _ => {}
    }
    GenAf { build: Build::Iccma(n, atts), recipe }
}

fn exhaustive(n: usize) -> Vec<GenAf> {
    let pairs: Vec<(usize, usize)> = (0..n).flat_map(|a| (0..n).map(move |b| (a, b))).collect();
    let mut v = Vec::new();
    for mask in 0u64..(1u64 << pairs.len()) {
        let atts: Vec<(usize, usize)> = pairs
            .iter()
            .enumerate()
            .filter(|(i, _)| mask >> i & 1 == 1)
            .map(|(_, p)| *p)
            .collect();
        v.push(GenAf { build: Build::Iccma(n, atts), recipe: "exhaustive" });
    }
    v
}

fn emit(out: &mut Out, g: &GenAf) {
    out.case("equiv");
    out.inp(&format!("recipe {}", g.recipe));
    write_build(out, &g.build);
    match guarded(|| {
        let af = build_af(&g.build);
        observe(&af)
    }) {
        Ok(ls) => {
            for l in ls {
                out.out(&l);
            }
        }
        Err(m) => out.out(&format!("panic {}", m)),
    }
    out.end();
}

/// Re-runs the frameworks of an existing case file (every `IN iccma` line), in order.
fn replay(path: &str, out: &mut Out) {
    let text = std::fs::read_to_string(path).expect("cannot read the replay file");
    for line in text.lines() {
        let t: Vec<&str> = line.split_whitespace().collect();
        if t.len() >= 3 && t[0] == "IN" && t[1] == "iccma" {
            let n: usize = t[2].parse().unwrap();
            let ids: Vec<usize> = t[3..].iter().map(|x| x.parse().unwrap()).collect();
            let atts: Vec<(usize, usize)> = ids.chunks(2).filter(|c| c.len() == 2).map(|c| (c[0], c[1])).collect();
            emit(out, &GenAf { build: Build::Iccma(n, atts), recipe: "replay" });
        }
    }
}

pub fn run(rng: &mut Rng, count: usize, thorough: bool, cfg: &Cfg, out: &mut Out) {
    if let Some(p) = &cfg.replay {
        replay(p, out);
        return;
    }
    if let Some(n) = cfg.exhaustive_n {
        let mut idx = 0;
        for k in 0..=n {
            for g in exhaustive(k) {
                if idx % cfg.shard.1 == cfg.shard.0 {
                    emit(out, &g);
                }
                idx += 1;
            }
        }
        return;
    }
    for _ in 0..count {
        let g = gen_case(rng, thorough);
        emit(out, &g);
    }
}
