//! Framework and history generators.  Shapes are forced by recipes, not hoped for.
#![allow(dead_code)]
use crate::common::*;
use crustabri::aa::{AAFramework, ArgumentSet};
use crustabri::io::{Iccma23Reader, InstanceReader};

/// A framework description that both sides can rebuild: either through the ICCMA reader
/// (attacks by ids, duplicates kept) or through an update history on labels.
#[derive(Clone, Debug)]
pub enum Build {
    /// n arguments (labels 1..=n, ids 0..n-1), attacks as 0-based id pairs, duplicates allowed
    Iccma(usize, Vec<(usize, usize)>),
    /// initial labels, then operations
    Hist(Vec<usize>, Vec<Op>),
}

#[derive(Clone, Debug, PartialEq, Eq)]
pub enum Op {
    NewArg(usize),
    RemArg(usize),
    NewAtt(usize, usize),
    RemAtt(usize, usize),
}

impl Op {
    pub fn to_string(&self) -> String {
        match self {
            Op::NewArg(l) => format!("+a {}", l),
            Op::RemArg(l) => format!("-a {}", l),
            Op::NewAtt(a, b) => format!("+t {} {}", a, b),
            Op::RemAtt(a, b) => format!("-t {} {}", a, b),
        }
    }
}

pub struct GenAf {
    pub build: Build,
    pub recipe: &'static str,
}

pub fn apply_op(af: &mut AAFramework<usize>, op: &Op) -> Result<(), ()> {
    match op {
        Op::NewArg(l) => {
            af.new_argument(*l);
            Ok(())
        }
        Op::RemArg(l) => af.remove_argument(l).map_err(|_| ()),
        Op::NewAtt(a, b) => af.new_attack(a, b).map_err(|_| ()),
        Op::RemAtt(a, b) => af.remove_attack(a, b).map_err(|_| ()),
    }
}

pub fn iccma_text(n: usize, atts: &[(usize, usize)]) -> String {
    let mut s = format!("p af {}\n", n);
    for (a, b) in atts {
        s.push_str(&format!("{} {}\n", a + 1, b + 1));
    }
    s
}

pub fn build_af(b: &Build) -> AAFramework<usize> {
    match b {
        Build::Iccma(n, atts) => {
            let text = iccma_text(*n, atts);
            Iccma23Reader::default()
                .read(&mut text.as_bytes())
                .expect("generated ICCMA text must be readable")
        }
        Build::Hist(init, ops) => {
            let mut af = AAFramework::new_with_argument_set(ArgumentSet::new_with_labels(init));
            for op in ops {
                let _ = apply_op(&mut af, op);
            }
            af
        }
    }
}

pub fn write_build(out: &mut Out, b: &Build) {
    match b {
        Build::Iccma(n, atts) => {
            out.inp(&format!(
                "iccma {} {}",
                n,
                join(atts.iter().map(|(a, b)| format!("{} {}", a, b)), " ")
            ));
        }
        Build::Hist(init, ops) => {
            out.inp(&format!("init {}", join(init.iter(), " ")));
            for op in ops {
                out.inp(&format!("op {}", op.to_string()));
            }
        }
    }
}

fn random_atts(rng: &mut Rng, n: usize, density_pct: usize, self_ok: bool) -> Vec<(usize, usize)> {
    let mut v = Vec::new();
    for a in 0..n {
        for b in 0..n {
            if (a != b || self_ok) && rng.chance(density_pct, 100) {
                v.push((a, b));
            }
        }
    }
    rng.shuffle(&mut v);
    v
}

fn cycle(offset: usize, k: usize) -> Vec<(usize, usize)> {
    (0..k).map(|i| (offset + i, offset + (i + 1) % k)).collect()
}

/// Component recipes glued side by side; returns (n, attacks, name).
fn component(rng: &mut Rng, max_n: usize) -> (usize, Vec<(usize, usize)>, &'static str) {
    let max_n = max_n.max(1);
    match rng.below(11) {
        0 => (rng.range(1, max_n.min(3)), vec![], "isolated"),
        1 => (1, vec![(0, 0)], "self"),
        2 => {
            let k = rng.range(2, max_n.max(2).min(5));
            let mut a = cycle(0, k);
            a.push((0, 0));
            (k, a, "self_in_cycle")
        }
        3 => {
            let k = [3, 5][rng.below(2)].min(max_n.max(3));
            (k, cycle(0, k), "odd_cycle")
        }
        4 => {
            let k = [2, 4, 6][rng.below(3)].min(max_n.max(2));
            (k, cycle(0, k), "even_cycle")
        }
        5 => {
            // pairs p<->q all attacking t, t attacks y: y skeptically preferred-accepted, not grounded
            let pairs = rng.range(1, ((max_n.max(4) - 2) / 2).max(1).min(3));
            let t = 2 * pairs;
            let y = t + 1;
            let mut a = Vec::new();
            for i in 0..pairs {
                a.push((2 * i, 2 * i + 1));
                a.push((2 * i + 1, 2 * i));
                a.push((2 * i, t));
                a.push((2 * i + 1, t));
            }
            a.push((t, y));
            (y + 1, a, "pairs_funnel")
        }
        6 => {
            // no stable extension: odd cycle attacking nothing else
            (3, cycle(0, 3), "no_stable")
        }
        7 => {
            let n = rng.range(2, max_n.max(2));
            (n, random_atts(rng, n, 10, true), "random10")
        }
        8 => {
            let n = rng.range(2, max_n.max(2));
            (n, random_atts(rng, n, 30, true), "random30")
        }
        9 => {
            let n = rng.range(2, max_n.max(2));
            (n, random_atts(rng, n, 60, false), "random60")
        }
        _ => {
            // chain
            let n = rng.range(2, max_n.max(2));
            ((n), (0..n - 1).map(|i| (i, i + 1)).collect(), "chain")
        }
    }
}

/// A "funnel": target t attacked by k attackers each having d defenders, so that the product of
/// defender-set sizes is d^k (crossing the hybrid threshold 32 on both sides).
pub fn funnel(rng: &mut Rng) -> (usize, Vec<(usize, usize)>, &'static str) {
    // shapes with products 31/32/33-ish: choose (sizes) lists
    let shapes: [&[usize]; 8] = [
        &[31],
        &[32],
        &[33],
        &[2, 2, 2, 2, 2],
        &[2, 2, 2, 2],
        &[4, 8],
        &[3, 11],
        &[6, 6],
    ];
    funnel_with(rng, &shapes)
}

pub fn funnel_with(rng: &mut Rng, shapes: &[&[usize]]) -> (usize, Vec<(usize, usize)>, &'static str) {
    let sizes = shapes[rng.below(shapes.len())];
    let mut atts = Vec::new();
    let t = 0;
    let mut next = 1;
    // shared pool of defenders to keep n small
    let pool_size = *sizes.iter().max().unwrap();
    let attackers: Vec<usize> = (0..sizes.len()).map(|i| next + i).collect();
    next += sizes.len();
    let pool: Vec<usize> = (0..pool_size).map(|i| next + i).collect();
    next += pool_size;
    for (i, &s) in sizes.iter().enumerate() {
        atts.push((attackers[i], t));
        for d in pool.iter().take(s) {
            atts.push((*d, attackers[i]));
        }
    }
    match rng.below(4) {
        0 => {
            // self-attacking defenders: nothing is defended, only the empty set is admissible
            for d in pool.iter() {
                if rng.chance(2, 3) { atts.push((*d, *d)); }
            }
        }
        _ => {}
    }
    if rng.chance(1, 2) {
        // make defenders attack each other a bit so that the semantics are not trivial
        // at most 3 mutually attacking pairs: 2^pairs preferred extensions are enumerated by ID
        for i in 0..(pool.len() / 2).min(3) {
            atts.push((pool[2 * i], pool[2 * i + 1]));
            atts.push((pool[2 * i + 1], pool[2 * i]));
        }
    }
    (next, atts, "funnel")
}

/// Two (or three) funnels side by side: several connected components that EACH push the hybrid
/// encoder over its threshold, so that state kept by an encoder object between components shows.
pub fn multi_funnel(rng: &mut Rng) -> (usize, Vec<(usize, usize)>, &'static str) {
    let k = rng.range(2, 3);
    let mut n = 0;
    let mut atts = Vec::new();
    for _ in 0..k {
        let (fnn, fa, _) = funnel_with(rng, &[&[2, 2, 2, 2, 2], &[6, 6], &[4, 8], &[2, 2, 2, 2, 2, 2]]);
        for (a, b) in fa {
            atts.push((a + n, b + n));
        }
        n += fnn;
    }
    (n, atts, "multi_funnel")
}

/// A dense framework on 6..max_n arguments (no self-attack mostly): every argument is "heavy" for the
/// hybrid encoder (product of the attacker counts of its attackers >= 32), so auxiliary variables are
/// allocated on every encoding. Used with LONG query sequences on one object.
pub fn gen_dense(rng: &mut Rng, max_n: usize) -> GenAf {
    let n = rng.range(6, max_n.max(6));
    let d = [60, 80, 100][rng.below(3)];
    let self_ok = rng.chance(1, 5);
    let atts = random_atts(rng, n, d, self_ok);
    GenAf { build: Build::Iccma(n, atts), recipe: "dense_long" }
}

/// Generates a framework with at most `max_n` arguments.
pub fn gen_af(rng: &mut Rng, max_n: usize) -> GenAf {
    let style = rng.below(100);
    // choose the attack structure
    let (n, mut atts, recipe): (usize, Vec<(usize, usize)>, &'static str) = if style < 3 {
        (0, vec![], "empty")
    } else if style < 9 && max_n >= 6 {
        // "skeptical gap": pairs p<->q attacking t, t attacks y (y in every preferred extension, not grounded,
        // not ideal) NEXT TO a grounded part (an unattacked argument, possibly attacking a further one)
        let mut a = vec![(0, 1), (1, 0), (0, 2), (1, 2), (2, 3)];
        let mut n = 5; // 4 is the unattacked argument
        if rng.chance(1, 2) && max_n >= 7 { a.push((4, 5)); a.push((5, 6)); n = 7; } else if rng.chance(1, 2) { a.push((4, 5)); n = 6; }
        if rng.chance(1, 3) { a.push((4, 2)); }   // sometimes the grounded part decides t: y becomes undecided
        (n, a, "skeptical_gap")
    } else if style < 40 {
        component(rng, max_n)
    } else if style < 75 {
        // several components
        let k = rng.range(2, 3);
        let mut n = 0;
        let mut atts = Vec::new();
        for _ in 0..k {
            if n >= max_n {
                break;
            }
            let (cn, ca, _) = component(rng, (max_n - n).max(1));
            if n + cn > max_n && n > 0 {
                break;
            }
            for (a, b) in ca {
                atts.push((a + n, b + n));
            }
            n += cn;
        }
        // sometimes a bridge, so that components merge
        if rng.chance(1, 4) && n >= 2 {
            atts.push((rng.below(n), rng.below(n)));
        }
        (n, atts, "multi")
    } else {
        let n = rng.range(1, max_n.max(1));
        let d = [10, 20, 30, 50][rng.below(4)];
        (n, random_atts(rng, n, d, true), "random")
    };
    // random renumbering so that components are not contiguous id ranges
    let mut perm: Vec<usize> = (0..n).collect();
    if rng.chance(1, 2) {
        rng.shuffle(&mut perm);
    }
    for p in atts.iter_mut() {
        *p = (perm[p.0], perm[p.1]);
    }
    atts.sort();
    atts.dedup();
    rng.shuffle(&mut atts);
    finish(rng, n, atts, recipe)
}

/// Chooses how the framework is presented: ICCMA (optionally with duplicated attack lines),
/// plain history, or a history with removals so that ids are sparse.
pub fn finish(rng: &mut Rng, n: usize, atts: Vec<(usize, usize)>, recipe: &'static str) -> GenAf {
    match rng.below(10) {
        0..=3 => GenAf { build: Build::Iccma(n, atts), recipe },
        4..=5 => {
            // duplicated attack lines (at most twice each)
            let mut a2 = atts.clone();
            for p in atts.iter() {
                if rng.chance(1, 3) {
                    a2.push(*p);
                }
            }
            rng.shuffle(&mut a2);
            GenAf { build: Build::Iccma(n, a2), recipe }
        }
        6..=7 => {
            let init: Vec<usize> = (1..=n).collect();
            let ops = atts.iter().map(|(a, b)| Op::NewAtt(a + 1, b + 1)).collect();
            GenAf { build: Build::Hist(init, ops), recipe }
        }
        _ => sparse_history(rng, n, atts, recipe),
    }
}

/// Builds the same graph through a history with extra arguments/attacks that are removed again,
/// so that ids are sparse, tombstones exist and swap_remove has been exercised.
pub fn sparse_history(rng: &mut Rng, n: usize, atts: Vec<(usize, usize)>, recipe: &'static str) -> GenAf {
    let mut ops = Vec::new();
    let mut init = Vec::new();
    // labels for real arguments: 1..=n ; junk labels: 100+
    let mut junk = 100;
    let n_init = rng.below(n + 1);
    let mut order: Vec<usize> = (1..=n).collect();
    rng.shuffle(&mut order);
    let mut live_junk: Vec<usize> = Vec::new();
    for (i, l) in order.iter().enumerate() {
        if i < n_init {
            init.push(*l);
        } else {
            if rng.chance(1, 2) {
                ops.push(Op::NewArg(junk));
                live_junk.push(junk);
                junk += 1;
            }
            ops.push(Op::NewArg(*l));
        }
    }
    if rng.chance(1, 3) {
        // remove and re-add one real argument before any attack exists on it
        if n > 0 {
            let l = 1 + rng.below(n);
            ops.push(Op::RemArg(l));
            ops.push(Op::NewArg(l));
        }
    }
    for (a, b) in atts.iter() {
        if rng.chance(1, 4) && !live_junk.is_empty() {
            let j = *rng.pick(&live_junk);
            ops.push(Op::NewAtt(j, a + 1));
            if rng.chance(1, 2) {
                ops.push(Op::NewAtt(b + 1, j));
            }
        }
        ops.push(Op::NewAtt(a + 1, b + 1));
        if rng.chance(1, 6) {
            // add a spurious attack and remove it again
            let x = 1 + rng.below(n.max(1));
            let y = 1 + rng.below(n.max(1));
            if !atts.contains(&(x - 1, y - 1)) && n > 0 {
                ops.push(Op::NewAtt(x, y));
                ops.push(Op::RemAtt(x, y));
            }
        }
    }
    for j in live_junk {
        ops.push(Op::RemArg(j));
    }
    GenAf { build: Build::Hist(init, ops), recipe }
}

/// Large frameworks (replay-only / metamorphic): sparse random graphs made of many small blocks.
pub fn gen_large(rng: &mut Rng, n: usize) -> GenAf {
    if rng.chance(1, 4) {
        // well-founded (acyclic) framework in a random id order: the grounded extension is stable, hence the only
        // extension of every semantics, and every status at any size is decided by it (polynomial oracle)
        let mut perm: Vec<usize> = (0..n).collect();
        rng.shuffle(&mut perm);
        let mut atts = Vec::new();
        let deg = rng.range(1, 3);
        let span = [3usize, 10, 40][rng.below(3)];
        for i in 0..n {
            for _ in 0..deg {
                if i + 1 < n && rng.chance(2, 3) {
                    let j = i + 1 + rng.below(span.min(n - i - 1));
                    atts.push((perm[i], perm[j]));
                }
            }
        }
        // id-aliasing pairs (see below), oriented along the order so that the framework stays acyclic
        let mut pos = vec![0usize; n];
        for (i, a) in perm.iter().enumerate() { pos[*a] = i; }
        for _ in 0..rng.below(7) {
            let d = [32usize, 64, 128, 256][rng.below(4)];
            if d >= n { continue; }
            let a = rng.below(n - d);
            let later: Vec<usize> = (0..n).filter(|t| pos[*t] > pos[a].max(pos[a + d])).collect();
            if later.is_empty() { continue; }
            let t = *rng.pick(&later);
            atts.push((a, t));
            atts.push((a + d, t));
        }
        atts.sort();
        atts.dedup();
        rng.shuffle(&mut atts);
        return GenAf { build: Build::Iccma(n, atts), recipe: "large_wellfounded" };
    }
    let mut atts = Vec::new();
    let avg_deg = [1, 2, 3][rng.below(3)];
    let block = [4usize, 8, 16, 400][rng.below(4)];
    for a in 0..n {
        for _ in 0..avg_deg {
            if rng.chance(2, 3) {
                let base = (a / block) * block;
                let b = base + rng.below(block.min(n - base));
                atts.push((a, b));
            }
        }
    }
    // id-ALIASING pairs: two attackers of one argument whose ids differ by exactly 32, 64, 128 or 256 (bit masks and
    // packed tables indexed by `id % width` or `id & mask` confuse exactly such pairs), half of the time
    if rng.chance(1, 2) {
        for _ in 0..rng.range(1, 6) {
            let d = [32usize, 64, 128, 256][rng.below(4)];
            if d >= n { continue; }
            let a = rng.below(n - d);
            let t = rng.below(n);
            atts.push((a, t));
            atts.push((a + d, t));
            // half of the pairs are made DECISIVE: one of the two becomes unattacked (a member of the grounded extension)
            // and attacks the other, so that t is defeated through exactly that attacker and losing it shows
            if rng.chance(1, 2) && t != a && t != a + d {
                let (u, o) = if rng.chance(1, 2) { (a, a + d) } else { (a + d, a) };
                atts.retain(|p| p.1 != u);
                atts.push((u, o));
            }
        }
    }
    atts.sort();
    atts.dedup();
    rng.shuffle(&mut atts);
    GenAf { build: Build::Iccma(n, atts), recipe: "large" }
}
